// C14 — lower-resolution label levels always match the documented down-sampling.
//
// Model-based histories on a labelmap instance with MaxDownresLevel 1..3 (blocks of 16^3 or 32^3).  After every
// mutation (POST blocks?downres=true, POST raw, POST raw?mutate=true, split-supervoxel, split) the instance is waited on
// exactly as the upstream tests do (datastore.BlockOnUpdating + the per-scale update counters that downres.BlockOnUpdating
// polls) and then, with no second evaluation, every level k+1 <= MaxDownresLevel read through GET blocks and GET raw
// (scale=k+1&supervoxels=true) must equal the documented vote (most frequent non-zero label of the 2x2x2 voxels beneath,
// ties to the smaller label, all zero gives zero: labels.downresArray / labels.DownresLabels) applied to the server's own
// level k; level 0 must equal what was written (reference model).  The final sweep does the same for every version.
package c14

import (
	"encoding/json"
	"fmt"
	"os"
	"path/filepath"
	"sort"
	"strings"
	"testing"
	"time"

	"github.com/janelia-flyem/dvid/datastore"
	"github.com/janelia-flyem/dvid/dvid"
	"github.com/janelia-flyem/dvid/server"
	"pgregory.net/rapid"

	"verif/drive"
	"verif/lmdrive"
	"verif/model"
	"verif/stats"
)

func TestMain(m *testing.M) {
	drive.Open()
	splitEnabled = enableSplit()
	rc := m.Run()
	drive.Close()
	stats.Flush()
	os.Exit(rc)
}

var splitEnabled bool

// enableSplit switches on the documented server option AllowLabelmapSplit (TOML [server] section) the way a deployment
// does: by loading a configuration file.  Only that key is present, so nothing else of the test configuration changes.
func enableSplit() bool {
	dir, err := os.MkdirTemp("", "c14cfg")
	if err != nil {
		return false
	}
	defer os.RemoveAll(dir)
	f := filepath.Join(dir, "c14.toml")
	if err := os.WriteFile(f, []byte("[server]\nallowLabelmapSplit = true\n"), 0644); err != nil {
		return false
	}
	if err := server.LoadConfig(f); err != nil {
		return false
	}
	return server.AllowLabelmapSplit()
}

// ------------------------------------------------------------------ case

// content describes the voxels of a write as a pure function of the absolute voxel coordinate.
type content struct {
	Pat  int    `json:"pat"`  // 0 solid A, 1 zero, 2 checker A/B, 3 noise, 4 stripes, 5 half-space, 6 box over current content, 7 sparse specks
	Seed uint32 `json:"seed"` // hash seed / geometry parameter
	A    int    `json:"a"`    // palette index
	B    int    `json:"b"`    // palette index
	P    int    `json:"p"`    // zero weight for noise (0..3 of 4), axis/period for stripes
}

type cop struct {
	Kind   string     `json:"kind"` // blocks raw splitsv split newversion branch
	Node   int        `json:"node"`
	Sel    int        `json:"sel,omitempty"`    // block selection shape: 0 single octant, 1 all eight, 2 some octants (Mask), 3 scattered (Blocks) / free box (Box), 4 one octant in each level-1 parent of a level-2 parent
	Parent [3]int32   `json:"parent,omitempty"` // level-1 parent block, relative to the extent, taken modulo the parent grid
	Mask   int        `json:"mask,omitempty"`   // octant bits (Sel 2), octant number (Sel 0, 4)
	Blocks [][3]int32 `json:"blocks,omitempty"` // scattered blocks relative to the extent, modulo the grid
	Box    [6]int32   `json:"box,omitempty"`    // raw, Sel 3: block box (offset, size-1) modulo the grid
	C      content    `json:"c"`
	A      int        `json:"a,omitempty"`
	B      int        `json:"b,omitempty"`
	N      int        `json:"n,omitempty"`
	Shape  int        `json:"shape,omitempty"`
	Query  int        `json:"query,omitempty"` // split-supervoxel: 0 no option (documented default downres=true), 1 ?downres=true
}

type c14Case struct {
	Edge     int32    `json:"edge"`     // block edge, 16 or 32
	MaxLevel int      `json:"maxlevel"` // MaxDownresLevel 1..3
	Origin   [3]int32 `json:"origin"`   // origin block coordinate, a multiple of 2^MaxLevel per axis
	NB       [3]int32 `json:"nb"`       // blocks per axis, a multiple of 2^MaxLevel per axis
	Palette  []uint64 `json:"palette"`
	// AvoidNegOdd: writes only touch blocks whose coordinate is, on every axis and at every level below MaxLevel,
	// non-negative or even (set by the generator when the negative-odd-coordinate finding is listed as known).
	AvoidNegOdd bool  `json:"avoid_neg_odd,omitempty"`
	Ops         []cop `json:"ops"`
}

func (c c14Case) geom() model.LabelGeom { return model.LabelGeom{B: c.Edge, OB: c.Origin, NB: c.NB} }

func (c c14Case) negative() bool { return c.Origin[0] < 0 || c.Origin[1] < 0 || c.Origin[2] < 0 }

func mix(seed uint32, x, y, z int32) uint32 {
	h := uint64(seed)*0x9E3779B97F4A7C15 ^ uint64(uint32(x))*0xBF58476D1CE4E5B9 ^ uint64(uint32(y))*0x94D049BB133111EB ^ uint64(uint32(z))*0xD6E8FEB86659FD93
	h ^= h >> 31
	h *= 0xFF51AFD7ED558CCD
	h ^= h >> 29
	return uint32(h >> 20)
}

// label computes the voxel value of a write; cur is the value the model holds at that voxel before the write.
func (ct content) label(pal []uint64, x, y, z int32, cur uint64) uint64 {
	a, b := pal[ct.A%len(pal)], pal[ct.B%len(pal)]
	switch ct.Pat % 8 {
	case 0:
		return a
	case 1:
		return 0
	case 2:
		if (x+y+z)&1 == 0 {
			return a
		}
		return b
	case 3:
		h := mix(ct.Seed, x, y, z)
		if int(h&3) < ct.P%4 {
			return 0
		}
		return pal[int(h>>2)%len(pal)]
	case 4:
		v := [3]int32{x, y, z}[ct.P%3]
		period := int32(1 + ct.Seed%3)
		q := v / period
		if v < 0 {
			q = -((-v + period - 1) / period)
		}
		if q&1 == 0 {
			return a
		}
		return b
	case 5:
		cut := int32(ct.Seed%61) - 30
		if [3]int32{x, y, z}[ct.P%3] < cut*2+1 {
			return a
		}
		return b
	case 6: // a box of label A (or 0 when P is odd) painted over whatever is there
		e := int32(3 + ct.Seed%11)
		ox, oy, oz := int32(ct.Seed>>4%16), int32(ct.Seed>>8%16), int32(ct.Seed>>12%16)
		mx, my, mz := ((x%16)+16)%16, ((y%16)+16)%16, ((z%16)+16)%16
		if mx >= ox && mx < ox+e && my >= oy && my < oy+e && mz >= oz && mz < oz+e {
			if ct.P&1 == 1 {
				return 0
			}
			return a
		}
		return cur
	default: // sparse specks: mostly zero, single voxels of A/B
		h := mix(ct.Seed, x, y, z)
		switch h % 11 {
		case 0:
			return a
		case 1:
			return b
		}
		return 0
	}
}

// ------------------------------------------------------------------ reference vote

// voteStats counts what the reference vote met (for the class histogram).
type voteStats struct{ ties, zeroMajority, cells int }

// vote is the documented rule: most frequent non-zero label, ties to the smaller label, all zero gives zero.
func vote(v *[8]uint64, vs *voteStats) uint64 {
	var best uint64
	bestN, zeros := 0, 0
	tie := false
	for i := 0; i < 8; i++ {
		l := v[i]
		if l == 0 {
			zeros++
			continue
		}
		seen := false
		for j := 0; j < i; j++ {
			if v[j] == l {
				seen = true
				break
			}
		}
		if seen {
			continue
		}
		n := 1
		for j := i + 1; j < 8; j++ {
			if v[j] == l {
				n++
			}
		}
		switch {
		case n > bestN:
			best, bestN, tie = l, n, false
		case n == bestN:
			tie = true
			if l < best {
				best = l
			}
		}
	}
	if vs != nil && bestN > 0 {
		vs.cells++
		if tie {
			vs.ties++
		}
		if zeros > bestN {
			vs.zeroMajority++
		}
	}
	return best
}

// downsample applies the vote to a dense volume (X fastest) of even size.
func downsample(src []uint64, size [3]int32, vs *voteStats) ([]uint64, [3]int32) {
	ls := [3]int32{size[0] / 2, size[1] / 2, size[2] / 2}
	out := make([]uint64, int(ls[0])*int(ls[1])*int(ls[2]))
	sx, sxy := int(size[0]), int(size[0])*int(size[1])
	var cell [8]uint64
	o := 0
	for z := 0; z < int(ls[2]); z++ {
		for y := 0; y < int(ls[1]); y++ {
			base := 2*z*sxy + 2*y*sx
			for x := 0; x < int(ls[0]); x++ {
				i := base + 2*x
				cell[0], cell[1] = src[i], src[i+1]
				cell[2], cell[3] = src[i+sx], src[i+sx+1]
				cell[4], cell[5] = src[i+sxy], src[i+sxy+1]
				cell[6], cell[7] = src[i+sxy+sx], src[i+sxy+sx+1]
				if cell[0] == cell[1] && cell[0] == cell[2] && cell[0] == cell[3] && cell[0] == cell[4] && cell[0] == cell[5] && cell[0] == cell[6] && cell[0] == cell[7] {
					out[o] = cell[0]
					if vs != nil && cell[0] != 0 {
						vs.cells++
					}
				} else {
					out[o] = vote(&cell, vs)
				}
				o++
			}
		}
	}
	return out, ls
}

// ------------------------------------------------------------------ machine

type vnode struct {
	uuid    string
	locked  bool
	parent  int
	branch  string
	st      *model.LabelState
	lastOp  string             // kind of the last mutation applied at this node ("inherited" for none)
	touched map[[3]int32]uint8 // level-1 parent block -> octant bits touched by mutations at this node
	anc     map[[3]int32]uint8 // the same, accumulated over strict ancestors
	foreign bool               // a split at this node targeted an id that was split on another branch
}

type machine struct {
	c       c14Case
	g       model.LabelGeom
	lm      lmdrive.LM
	root    string
	nodes   []*vnode
	kids    map[int]map[string]bool
	nbr     int
	applied map[string]int
	classes map[string]bool
	nontriv bool
	vs      voteStats
	neg     bool
	// number of blocks returned by the most recent GET blocks (readBlocksDense)
	lastNBlocks int
	// supervoxel id -> nodes at which it was split away (ceased to exist)
	splitAway map[uint64][]int
}

// sigForeign*: a supervoxel that was split on another branch is mis-indexed when written on this branch, so a later
// split on this branch misses blocks (level 0 then differs from what was written).
const sigForeignSV = "C14/split-supervoxel/scale0/differs-from-written/id-split-on-other-branch"
const sigForeignBody = "C14/split/scale0/differs-from-written/id-split-on-other-branch"

func (m *machine) isAncestorOrSelf(a, n int) bool {
	for n >= 0 {
		if n == a {
			return true
		}
		n = m.nodes[n].parent
	}
	return false
}

// foreign: was the supervoxel split away at a version that is not on the lineage of node ni?
func (m *machine) foreign(ni int, sv uint64) bool {
	for _, a := range m.splitAway[sv] {
		if !m.isAncestorOrSelf(a, ni) {
			return true
		}
	}
	return false
}

func newMachine(c c14Case) (*machine, error) {
	if c.Edge != 16 && c.Edge != 32 {
		return nil, fmt.Errorf("bad edge %d", c.Edge)
	}
	if c.MaxLevel < 1 || c.MaxLevel > 3 || len(c.Palette) == 0 {
		return nil, fmt.Errorf("bad case")
	}
	al := int32(1) << uint(c.MaxLevel)
	for a := 0; a < 3; a++ {
		if c.NB[a] <= 0 || c.NB[a]%al != 0 || c.Origin[a]%al != 0 {
			return nil, fmt.Errorf("extent not aligned to level %d", c.MaxLevel)
		}
	}
	g := c.geom()
	root, err := drive.NewRepo()
	if err != nil {
		return nil, err
	}
	cfg := map[string]string{
		"BlockSize":       fmt.Sprintf("%d,%d,%d", c.Edge, c.Edge, c.Edge),
		"MaxDownresLevel": fmt.Sprintf("%d", c.MaxLevel),
	}
	if err := drive.NewInstance(root, "labelmap", "lm", cfg); err != nil {
		return nil, err
	}
	m := &machine{c: c, g: g, lm: lmdrive.LM{Name: "lm", G: g}, root: root, kids: map[int]map[string]bool{}, applied: map[string]int{}, classes: map[string]bool{}, neg: c.negative(), splitAway: map[uint64][]int{}}
	m.nodes = []*vnode{{uuid: root, parent: -1, st: model.NewLabelState(g), lastOp: "inherited", touched: map[[3]int32]uint8{}, anc: map[[3]int32]uint8{}}}
	// Register the largest palette id with the label counter (documented POST maxlabel) so that ids the server hands out
	// for splits never collide with palette ids written later.
	mx := uint64(0)
	for _, p := range c.Palette {
		if p > mx {
			mx = p
		}
	}
	r := drive.Post(fmt.Sprintf("node/%s/lm/maxlabel/%d", root, mx), nil)
	if !r.OK() {
		return nil, fmt.Errorf("maxlabel: %s", r)
	}
	return m, nil
}

const latestNode = 1<<20 - 1

func (m *machine) ni(node int) int {
	if node >= latestNode || node < 0 {
		return len(m.nodes) - 1
	}
	return node % len(m.nodes)
}

func pmod(a, n int32) int32 {
	a %= n
	if a < 0 {
		a += n
	}
	return a
}

// sig marks signatures of cases whose extent has negative coordinates.  When the case steers around the known
// negative-odd finding (AvoidNegOdd) a failure is not that finding's shape and gets its own suffix.
func (m *machine) sig(s string) string {
	switch {
	case m.neg && m.c.AvoidNegOdd:
		return s + "/negative-coords-even-only"
	case m.neg:
		return s + "/negative-coords"
	}
	return s
}

// safe reports whether an absolute block coordinate is outside the shape of the known negative-odd finding.
func (m *machine) safe(b [3]int32) bool {
	if !m.c.AvoidNegOdd {
		return true
	}
	for a := 0; a < 3; a++ {
		for k := 0; k < m.c.MaxLevel; k++ {
			if c := b[a] >> uint(k); c < 0 && c&1 != 0 {
				return false
			}
		}
	}
	return true
}

// selection resolves the op's block selection into blocks relative to the extent (sorted, unique).
func (m *machine) selection(o cop) [][3]int32 {
	nb := m.c.NB
	pg := [3]int32{nb[0] / 2, nb[1] / 2, nb[2] / 2}
	p := [3]int32{pmod(o.Parent[0], pg[0]), pmod(o.Parent[1], pg[1]), pmod(o.Parent[2], pg[2])}
	oct := func(par [3]int32, i int) [3]int32 {
		return [3]int32{par[0]*2 + int32(i&1), par[1]*2 + int32(i>>1&1), par[2]*2 + int32(i>>2&1)}
	}
	var out [][3]int32
	switch o.Sel % 5 {
	case 0:
		out = append(out, oct(p, o.Mask&7))
	case 1:
		for i := 0; i < 8; i++ {
			out = append(out, oct(p, i))
		}
	case 2:
		mask := o.Mask & 255
		if mask == 0 {
			mask = 1
		}
		for i := 0; i < 8; i++ {
			if mask&(1<<uint(i)) != 0 {
				out = append(out, oct(p, i))
			}
		}
	case 3:
		for _, b := range o.Blocks {
			out = append(out, [3]int32{pmod(b[0], nb[0]), pmod(b[1], nb[1]), pmod(b[2], nb[2])})
		}
		if len(out) == 0 {
			out = append(out, oct(p, o.Mask&7))
		}
	case 4: // one octant in each of some level-1 parents below the level-2 parent of p (MaxLevel >= 2)
		if m.c.MaxLevel < 2 {
			out = append(out, oct(p, o.Mask&7))
			break
		}
		gp := [3]int32{p[0] / 2 * 2, p[1] / 2 * 2, p[2] / 2 * 2}
		mask := o.N & 255
		if mask == 0 {
			mask = 0x81
		}
		for i := 0; i < 8; i++ {
			if mask&(1<<uint(i)) != 0 {
				par := [3]int32{gp[0] + int32(i&1), gp[1] + int32(i>>1&1), gp[2] + int32(i>>2&1)}
				out = append(out, oct(par, (o.Mask+i)&7))
			}
		}
	}
	sort.Slice(out, func(i, j int) bool {
		a, b := out[i], out[j]
		if a[2] != b[2] {
			return a[2] < b[2]
		}
		if a[1] != b[1] {
			return a[1] < b[1]
		}
		return a[0] < b[0]
	})
	var u [][3]int32
	for i, b := range out {
		if (i == 0 || b != out[i-1]) && m.safe(m.abs(b)) {
			u = append(u, b)
		}
	}
	return u
}

// box resolves the block box of a raw op (relative block offset and size; size 0 = nothing to write).
func (m *machine) box(o cop) (off, size [3]int32) {
	off, size = m.box0(o)
	if !m.c.AvoidNegOdd {
		return
	}
	// per axis keep the first run of safe coordinates
	for a := 0; a < 3; a++ {
		lo, n := int32(-1), int32(0)
		for c := off[a]; c < off[a]+size[a]; c++ {
			var b [3]int32
			b[a] = m.g.OB[a] + c
			if m.safe(b) {
				if lo < 0 {
					lo = c
				}
				n++
			} else if lo >= 0 {
				break
			}
		}
		if lo < 0 {
			return off, [3]int32{}
		}
		off[a], size[a] = lo, n
	}
	return
}

func (m *machine) box0(o cop) (off, size [3]int32) {
	nb := m.c.NB
	pg := [3]int32{nb[0] / 2, nb[1] / 2, nb[2] / 2}
	p := [3]int32{pmod(o.Parent[0], pg[0]), pmod(o.Parent[1], pg[1]), pmod(o.Parent[2], pg[2])}
	switch o.Sel % 5 {
	case 0, 4:
		i := o.Mask & 7
		return [3]int32{p[0]*2 + int32(i&1), p[1]*2 + int32(i>>1&1), p[2]*2 + int32(i>>2&1)}, [3]int32{1, 1, 1}
	case 1:
		return [3]int32{p[0] * 2, p[1] * 2, p[2] * 2}, [3]int32{2, 2, 2}
	case 2: // a sub-box of the parent: per axis either the low half, the high half or both
		for a := 0; a < 3; a++ {
			switch (o.Mask >> uint(2*a)) & 3 {
			case 0:
				off[a], size[a] = p[a]*2, 1
			case 1:
				off[a], size[a] = p[a]*2+1, 1
			default:
				off[a], size[a] = p[a]*2, 2
			}
		}
		return
	default:
		for a := 0; a < 3; a++ {
			off[a] = pmod(o.Box[a], nb[a])
			size[a] = 1 + pmod(o.Box[a+3], 3)
			if off[a]+size[a] > nb[a] {
				size[a] = nb[a] - off[a]
			}
		}
		return
	}
}

func (m *machine) abs(rel [3]int32) [3]int32 {
	return [3]int32{m.g.OB[0] + rel[0], m.g.OB[1] + rel[1], m.g.OB[2] + rel[2]}
}

// palette usable for writes at a node: ids that were split away in the node's lineage no longer exist and must not be
// re-introduced by a write.
func (m *machine) livePalette(n *vnode) []uint64 {
	var out []uint64
	for _, p := range m.c.Palette {
		if b, ok := n.st.Map[p]; ok && b == 0 {
			continue
		}
		out = append(out, p)
	}
	return out
}

// render computes the voxels of a block-aligned box (absolute voxel coords) for a write at node n.
func (m *machine) render(n *vnode, ct content, pal []uint64, off, size [3]int32) []uint64 {
	out := make([]uint64, 0, int(size[0])*int(size[1])*int(size[2]))
	for z := off[2]; z < off[2]+size[2]; z++ {
		for y := off[1]; y < off[1]+size[1]; y++ {
			for x := off[0]; x < off[0]+size[0]; x++ {
				var cur uint64
				if i, ok := m.g.Idx(x, y, z); ok {
					cur = n.st.SV[i]
				}
				out = append(out, ct.label(pal, x, y, z, cur))
			}
		}
	}
	return out
}

// parentAllZero: do all eight level-0 blocks below a level-1 parent block hold only zeros in the model?
func (m *machine) parentAllZero(n *vnode, par [3]int32) bool {
	B := m.g.B
	for z := par[2] * 2 * B; z < (par[2]*2+2)*B; z++ {
		for y := par[1] * 2 * B; y < (par[1]*2+2)*B; y++ {
			for x := par[0] * 2 * B; x < (par[0]*2+2)*B; x++ {
				if i, ok := m.g.Idx(x, y, z); ok && n.st.SV[i] != 0 {
					return false
				}
			}
		}
	}
	return true
}

func allZero(v []uint64) bool {
	for _, x := range v {
		if x != 0 {
			return false
		}
	}
	return true
}

// touch records which octants of which level-1 parents a mutation at node ni changed and evaluates the non-trivial rule.
func (m *machine) touch(ni int, absBlocks [][3]int32) {
	n := m.nodes[ni]
	for _, b := range absBlocks {
		par := [3]int32{b[0] >> 1, b[1] >> 1, b[2] >> 1}
		bit := uint8(1) << uint((b[0]&1)|(b[1]&1)<<1|(b[2]&1)<<2)
		n.touched[par] |= bit
		if a := n.anc[par]; a&^bit != 0 {
			// another octant of this parent block was written in a strict ancestor version
			m.nontriv = true
			m.classes["child-version-octant"] = true
		}
		if b[0] < 0 || b[1] < 0 || b[2] < 0 {
			m.classes["negative-block-coords"] = true
			if b[0]&1 != 0 && b[0] < 0 || b[1]&1 != 0 && b[1] < 0 || b[2]&1 != 0 && b[2] < 0 {
				m.classes["negative-odd-block-coords"] = true
			}
		}
	}
}

func (m *machine) selClass(kind string, blocks [][3]int32) {
	pars := map[[3]int32]int{}
	for _, b := range blocks {
		pars[[3]int32{b[0] >> 1, b[1] >> 1, b[2] >> 1}]++
	}
	switch {
	case len(blocks) == 1:
		m.classes["single-octant"] = true
	case len(pars) == 1 && len(blocks) == 8:
		m.classes["all-eight"] = true
	case len(pars) == 1:
		m.classes["partial-octants"] = true
	default:
		m.classes["scattered"] = true
	}
	for _, n := range pars {
		if n == 8 && len(pars) > 1 {
			m.classes["all-eight"] = true
		}
	}
	gps := map[[3]int32]map[[3]int32]bool{}
	for p := range pars {
		gp := [3]int32{p[0] >> 1, p[1] >> 1, p[2] >> 1}
		if gps[gp] == nil {
			gps[gp] = map[[3]int32]bool{}
		}
		gps[gp][p] = true
	}
	for _, s := range gps {
		if len(s) >= 2 && m.c.MaxLevel >= 2 {
			m.classes["several-level1-parents-of-one-level2-parent"] = true
		}
	}
	if len(gps) >= 2 && m.c.MaxLevel >= 2 {
		m.classes["one-mutation-spans-several-level2-blocks"] = true
	}
}

func (m *machine) apply(i int, o cop) error {
	ni := m.ni(o.Node)
	n := m.nodes[ni]
	what := fmt.Sprintf("op %d %s at node %d", i, o.Kind, ni)
	switch o.Kind {
	case "newversion", "branch":
		if !n.locked {
			if err := drive.Commit(n.uuid); err != nil {
				return stats.Violf("C14/commit/refused", "%s: %v", what, err)
			}
			n.locked = true
		}
		if m.kids[ni] == nil {
			m.kids[ni] = map[string]bool{}
		}
		br := n.branch
		var child string
		var err error
		if o.Kind == "newversion" && !m.kids[ni][br] {
			child, err = drive.NewVersion(n.uuid)
		} else {
			m.nbr++
			br = fmt.Sprintf("br%d", m.nbr)
			child, err = drive.Branch(n.uuid, br)
		}
		if err != nil {
			return stats.Violf("C14/newversion/refused", "%s: %v", what, err)
		}
		m.kids[ni][br] = true
		anc := map[[3]int32]uint8{}
		for k, v := range n.anc {
			anc[k] |= v
		}
		for k, v := range n.touched {
			anc[k] |= v
		}
		m.nodes = append(m.nodes, &vnode{uuid: child, parent: ni, branch: br, st: n.st.Clone(), lastOp: "inherited", touched: map[[3]int32]uint8{}, anc: anc})
		m.applied["version"]++
		return nil
	}
	if n.locked {
		return nil
	}
	B := m.g.B
	switch o.Kind {
	case "blocks":
		pal := m.livePalette(n)
		if len(pal) == 0 {
			return nil
		}
		var coords [][3]int32
		var data [][]uint64
		for _, rel := range m.selection(o) {
			b := m.abs(rel)
			if n.st.Wr[b] {
				continue // POST blocks is the ingest path: only onto blocks never written in this lineage
			}
			coords = append(coords, b)
			data = append(data, m.render(n, o.C, pal, [3]int32{b[0] * B, b[1] * B, b[2] * B}, [3]int32{B, B, B}))
		}
		if len(coords) == 0 {
			return nil
		}
		r, err := m.lm.PostBlocks(n.uuid, coords, data, "?downres=true")
		if err != nil {
			return nil // harness-side encoder refused (C09's subject)
		}
		if r.IsPanic() {
			return stats.Violf(m.sig("C14/blocks/panic"), "%s blocks %v: %s", what, coords, r)
		}
		if !r.OK() {
			return stats.Violf(m.sig("C14/blocks/refused"), "%s blocks %v: %s", what, coords, r)
		}
		for k, b := range coords {
			n.st.Write([3]int32{b[0] * B, b[1] * B, b[2] * B}, [3]int32{B, B, B}, data[k])
		}
		n.lastOp = "blocks"
		m.applied["blocks-ingest"]++
		m.classes["blocks-ingest"] = true
		m.selClass("blocks", coords)
		m.touch(ni, coords)
	case "raw":
		pal := m.livePalette(n)
		if len(pal) == 0 {
			return nil
		}
		ro, rs := m.box(o)
		if rs[0] == 0 {
			return nil
		}
		var blocks [][3]int32
		written, unwritten := 0, 0
		for z := int32(0); z < rs[2]; z++ {
			for y := int32(0); y < rs[1]; y++ {
				for x := int32(0); x < rs[0]; x++ {
					b := m.abs([3]int32{ro[0] + x, ro[1] + y, ro[2] + z})
					blocks = append(blocks, b)
					if n.st.Wr[b] {
						written++
					} else {
						unwritten++
					}
				}
			}
		}
		ab := m.abs(ro)
		off := [3]int32{ab[0] * B, ab[1] * B, ab[2] * B}
		size := [3]int32{rs[0] * B, rs[1] * B, rs[2] * B}
		vox := m.render(n, o.C, pal, off, size)
		mutate := written > 0 // first write of every block in the box: plain ingest; otherwise the overwrite form
		r := m.lm.PostRaw(n.uuid, off, size, vox, mutate)
		name := "raw-ingest"
		if mutate {
			name = "raw-mutate"
		}
		if r.IsPanic() {
			return stats.Violf(m.sig("C14/"+name+"/panic"), "%s off %v size %v: %s", what, off, size, r)
		}
		if !r.OK() {
			return stats.Violf(m.sig("C14/"+name+"/refused"), "%s off %v size %v: %s", what, off, size, r)
		}
		if mutate && allZero(vox) {
			// erased blocks: were there labels before, and do siblings of the same parent keep theirs?
			had := false
			for z := off[2]; z < off[2]+size[2] && !had; z++ {
				for y := off[1]; y < off[1]+size[1] && !had; y++ {
					for x := off[0]; x < off[0]+size[0]; x++ {
						if j, ok := m.g.Idx(x, y, z); ok && n.st.SV[j] != 0 {
							had = true
							break
						}
					}
				}
			}
			if had {
				m.classes["mutate-to-zero"] = true
			}
		}
		n.st.Write(off, size, vox)
		if mutate && allZero(vox) && m.classes["mutate-to-zero"] {
			for _, b := range blocks {
				if m.parentAllZero(n, [3]int32{b[0] >> 1, b[1] >> 1, b[2] >> 1}) {
					m.classes["parent-erased-to-zero"] = true
				}
			}
		}
		n.lastOp = name
		m.applied[name]++
		m.classes[name] = true
		if mutate && unwritten > 0 {
			m.classes["raw-mutate-mixed-written-unwritten"] = true
		}
		m.selClass("raw", blocks)
		m.touch(ni, blocks)
	case "splitsv":
		counts := n.st.SVCounts()
		svs := sortedKeys(counts)
		if len(svs) == 0 {
			return nil
		}
		sv := svs[o.A%len(svs)]
		in := m.splitShape(n.st, func(v uint64) bool { return v == sv }, o)
		if len(in) == 0 || len(in) >= int(counts[sv]) {
			return nil // the split must be a non-empty proper part of the supervoxel
		}
		if m.foreign(ni, sv) {
			if stats.IsKnown(sigForeignSV) || stats.IsKnown(sigForeignBody) {
				stats.Excluded(sigForeignSV)
				return nil
			}
			n.foreign = true
			m.classes["split-of-id-split-on-other-branch"] = true
		}
		runs := lmdrive.RunsOf(m.g, in)
		q := ""
		if o.Query%2 == 1 {
			q = "?downres=true"
		}
		resp, r := m.lm.SplitSupervoxel(n.uuid, sv, runs, q)
		if r.IsPanic() {
			return stats.Violf(m.sig("C14/split-supervoxel/panic"), "%s sv %d: %s", what, sv, r)
		}
		if !r.OK() {
			return stats.Violf(m.sig("C14/split-supervoxel/refused"), "%s sv %d with %d voxels of %d (%d runs): %s", what, sv, len(in), counts[sv], len(runs), r)
		}
		if resp.SplitSupervoxel == resp.RemainSupervoxel || resp.SplitSupervoxel == 0 || resp.RemainSupervoxel == 0 {
			return stats.Violf("C14/split-supervoxel/bad-ids", "%s: split %d remain %d", what, resp.SplitSupervoxel, resp.RemainSupervoxel)
		}
		var touched [][3]int32
		seen := map[[3]int32]bool{}
		for j, v := range n.st.SV {
			if v == sv {
				if b := m.g.BlockOf(j); !seen[b] {
					seen[b] = true
					touched = append(touched, b)
				}
			}
		}
		n.st.SplitSupervoxel(sv, resp.SplitSupervoxel, resp.RemainSupervoxel, in)
		m.splitAway[sv] = append(m.splitAway[sv], ni)
		n.lastOp = "split-supervoxel"
		m.applied["split-supervoxel"]++
		m.classes["split-supervoxel"] = true
		m.touch(ni, touched)
	case "split":
		if !splitEnabled {
			return nil
		}
		bodies := sortedKeys(n.st.Bodies())
		if len(bodies) == 0 {
			return nil
		}
		body := bodies[o.A%len(bodies)]
		in := m.splitShape(n.st, func(v uint64) bool { return v != 0 && n.st.Body(v) == body }, o)
		if len(in) == 0 || len(in) >= int(n.st.Bodies()[body]) {
			return nil // the split volume must be a non-empty proper subset of the body
		}
		for _, sv := range n.st.SupervoxelsOf(body) {
			if m.foreign(ni, sv) {
				if stats.IsKnown(sigForeignSV) || stats.IsKnown(sigForeignBody) {
					stats.Excluded(sigForeignBody)
					return nil
				}
				n.foreign = true
				m.classes["split-of-id-split-on-other-branch"] = true
			}
		}
		runs := lmdrive.RunsOf(m.g, in)
		resp, r := m.lm.Split(n.uuid, body, runs)
		if r.IsPanic() {
			return stats.Violf(m.sig("C14/split/panic"), "%s body %d: %s", what, body, r)
		}
		if !r.OK() {
			return stats.Violf(m.sig("C14/split/refused"), "%s body %d with %d voxels (%d runs): %s", what, body, len(in), len(runs), r)
		}
		if resp.Label == 0 {
			return stats.Violf("C14/split/bad-ids", "%s: new label 0 (%s)", what, r)
		}
		// The ids of the pieces are chosen by the server: adopt the stored level 0 after checking that it is a relabelling
		// of exactly the body's supervoxels by (supervoxel, inside/outside the split volume).
		if err := m.adoptSplit(n, body, in, what); err != nil {
			return err
		}
		n.lastOp = "split"
		m.applied["split"]++
		m.classes["split-body"] = true
	}
	return nil
}

func sortedKeys(m map[uint64]uint64) []uint64 {
	var out []uint64
	for k := range m {
		out = append(out, k)
	}
	sort.Slice(out, func(i, j int) bool { return out[i] < out[j] })
	return out
}

// splitShape returns the voxel indices selected by the op's shape among the voxels accepted by pick.
func (m *machine) splitShape(st *model.LabelState, pick func(uint64) bool, o cop) map[int]bool {
	var mine []int
	for i, v := range st.SV {
		if pick(v) {
			mine = append(mine, i)
		}
	}
	in := map[int]bool{}
	if len(mine) == 0 {
		return in
	}
	switch o.Shape % 6 {
	case 0: // single voxel
		in[mine[o.B%len(mine)]] = true
	case 1: // first k voxels in scan order
		k := 1 + o.N%len(mine)
		for _, i := range mine[:k] {
			in[i] = true
		}
	case 2: // everything inside one block
		blk := m.g.BlockOf(mine[o.B%len(mine)])
		for _, i := range mine {
			if m.g.BlockOf(i) == blk {
				in[i] = true
			}
		}
	case 3: // half-space x <= cut
		x0, _, _ := m.g.Coord(mine[o.B%len(mine)])
		for _, i := range mine {
			if x, _, _ := m.g.Coord(i); x <= x0 {
				in[i] = true
			}
		}
	case 4: // every other voxel
		for j, i := range mine {
			if j%2 == o.B%2 {
				in[i] = true
			}
		}
	case 5: // one 2x2x2-aligned cell column: voxels with even z
		for _, i := range mine {
			if _, _, z := m.g.Coord(i); z&1 == 0 {
				in[i] = true
			}
		}
	}
	return in
}

// adoptSplit reads the stored level 0 after a body split, checks it is a consistent relabelling and adopts it.
func (m *machine) adoptSplit(n *vnode, body uint64, in map[int]bool, what string) error {
	S, err := m.readBlocksDense(n.uuid, 0)
	if err != nil {
		return stats.Violf("C14/read-blocks/failed", "%s: %v", what, err)
	}
	type key struct {
		sv uint64
		in bool
	}
	fwd := map[key]uint64{}
	back := map[uint64]key{}
	var touched [][3]int32
	seen := map[[3]int32]bool{}
	changed := map[uint64]bool{}
	for i, old := range n.st.SV {
		nw := S[i]
		if old == 0 || n.st.Body(old) != body {
			if nw != old {
				x, y, z := m.g.Coord(i)
				return stats.Violf(m.sig("C14/split/scale0/voxel-outside-body-changed"), "%s: voxel (%d,%d,%d) held %d (not of body %d), now %d", what, x, y, z, old, body, nw)
			}
			continue
		}
		k := key{old, in[i]}
		if f, ok := fwd[k]; ok && f != nw || nw == 0 {
			x, y, z := m.g.Coord(i)
			return stats.Violf(m.sig("C14/split/scale0/not-a-relabelling"), "%s: voxel (%d,%d,%d) of supervoxel %d (in split: %v) now %d, another such voxel %d", what, x, y, z, old, in[i], nw, fwd[k])
		}
		if bk, ok := back[nw]; ok && bk != k {
			x, y, z := m.g.Coord(i)
			return stats.Violf(m.sig("C14/split/scale0/not-a-relabelling"), "%s: voxel (%d,%d,%d): label %d now names pieces %+v and %+v", what, x, y, z, nw, bk, k)
		}
		fwd[k] = nw
		back[nw] = k
		if nw != old {
			changed[old] = true
			if b := m.g.BlockOf(i); !seen[b] {
				seen[b] = true
				touched = append(touched, b)
			}
		}
	}
	var newIDs []uint64
	for id, k := range back {
		if id != k.sv {
			newIDs = append(newIDs, id)
		}
	}
	// also pieces that kept their id but moved to the new body
	for id := range back {
		newIDs = append(newIDs, id)
	}
	sort.Slice(newIDs, func(i, j int) bool { return newIDs[i] < newIDs[j] })
	var uq []uint64
	for i, id := range newIDs {
		if i == 0 || id != newIDs[i-1] {
			uq = append(uq, id)
		}
	}
	copy(n.st.SV, S)
	if len(uq) > 0 {
		mp, r := m.lm.Mapping(n.uuid, uq)
		if mp == nil || len(mp) != len(uq) {
			return stats.Violf("C14/mapping/read-failed", "%s: %s", what, r)
		}
		for i, id := range uq {
			if mp[i] == id {
				delete(n.st.Map, id)
			} else {
				n.st.Map[id] = mp[i]
			}
		}
	}
	ni := 0
	for j, x := range m.nodes {
		if x == n {
			ni = j
		}
	}
	for old := range changed {
		n.st.Map[old] = 0 // the supervoxel id no longer exists
		m.splitAway[old] = append(m.splitAway[old], ni)
	}
	m.touch(ni, touched)
	return nil
}

// ------------------------------------------------------------------ reading levels

func (m *machine) levelBox(k int) (off, size [3]int32) {
	o, s := m.g.Offset(), m.g.Size()
	for a := 0; a < 3; a++ {
		off[a] = o[a] >> uint(k) // exact: the extent is aligned to 2^MaxLevel blocks
		size[a] = s[a] >> uint(k)
	}
	return
}

// readBlocksDense reads GET blocks at scale k (supervoxels) over the extent and lays the blocks out densely (absent = 0).
func (m *machine) readBlocksDense(uuid string, k int) ([]uint64, error) {
	off, size := m.levelBox(k)
	blks, r, err := m.lm.GetBlocks(uuid, off, size, true, k)
	if r.IsPanic() {
		return nil, stats.Violf(m.sig("C14/read-blocks/panic"), "scale %d: %s", k, r)
	}
	if blks == nil || err != nil {
		return nil, fmt.Errorf("GET blocks scale %d off %v size %v: %s %v", k, off, size, r, err)
	}
	B := m.g.B
	m.lastNBlocks = len(blks)
	out := make([]uint64, int(size[0])*int(size[1])*int(size[2]))
	for bc, vox := range blks {
		if len(vox) != int(B*B*B) {
			return nil, fmt.Errorf("GET blocks scale %d: block %v has %d voxels", k, bc, len(vox))
		}
		var lo [3]int32
		for a := 0; a < 3; a++ {
			lo[a] = bc[a]*B - off[a]
			if lo[a] < 0 || lo[a]+B > size[a] {
				return nil, fmt.Errorf("GET blocks scale %d off %v size %v returned block %v outside the request", k, off, size, bc)
			}
		}
		j := 0
		for z := int32(0); z < B; z++ {
			for y := int32(0); y < B; y++ {
				base := int(lo[2]+z)*int(size[1])*int(size[0]) + int(lo[1]+y)*int(size[0]) + int(lo[0])
				copy(out[base:base+int(B)], vox[j:j+int(B)])
				j += int(B)
			}
		}
	}
	return out, nil
}

const sigRawUnset = "C14/read-raw/single-unset-block/panic"

// readRaw reads GET raw at scale k over the extent.  Returns nil, nil when the read is skipped to steer around the
// known finding sigRawUnset (a raw GET of exactly one block that is not stored).
func (m *machine) readRaw(uuid string, k int) ([]uint64, error) {
	off, size := m.levelBox(k)
	B := m.g.B
	singleUnset := size == [3]int32{B, B, B} && m.lastNBlocks == 0
	if singleUnset {
		m.classes["raw-read-of-single-unset-block"] = true
		if stats.IsKnown(sigRawUnset) {
			stats.Excluded(sigRawUnset)
			return nil, nil
		}
	}
	v, r := m.lm.GetRaw(uuid, off, size, true, k)
	if r.IsPanic() {
		if singleUnset {
			return nil, stats.Violf(sigRawUnset, "scale %d off %v size %v (one block, none stored there): %s", k, off, size, r)
		}
		return nil, stats.Violf(m.sig("C14/read-raw/panic"), "scale %d: %s", k, r)
	}
	if v == nil || len(v) != int(size[0])*int(size[1])*int(size[2]) {
		return nil, fmt.Errorf("GET raw scale %d off %v size %v: %s (%d voxels)", k, off, size, r, len(v))
	}
	return v, nil
}

func firstDiff(a, b []uint64) int {
	if len(a) != len(b) {
		return 0
	}
	for i := range a {
		if a[i] != b[i] {
			return i
		}
	}
	return -1
}

func countDiff(a, b []uint64) int {
	n := 0
	for i := range a {
		if a[i] != b[i] {
			n++
		}
	}
	return n
}

func scaleBucket(k int) string {
	if k <= 1 {
		return "scale1"
	}
	return "scale2+"
}

// idle waits for the instance to report itself idle, exactly as the upstream multiscale tests do:
// datastore.BlockOnUpdating, then the per-scale update counters polled by downres.BlockOnUpdating.  A watchdog turns a
// never-idle instance into a violation instead of a hang.
func (m *machine) idle(what string) error {
	drive.Settle(m.root)
	done := make(chan error, 1)
	go func() {
		if err := datastore.BlockOnUpdating(dvid.UUID(m.root), "lm"); err != nil {
			done <- err
			return
		}
		d, err := datastore.GetDataByUUIDName(dvid.UUID(m.root), "lm")
		if err != nil {
			done <- err
			return
		}
		if u, ok := d.(interface{ AnyScaleUpdating() bool }); ok {
			for u.AnyScaleUpdating() {
				time.Sleep(20 * time.Millisecond)
			}
		}
		done <- nil
	}()
	select {
	case err := <-done:
		if err != nil {
			return fmt.Errorf("BlockOnUpdating: %v", err)
		}
		return nil
	case <-time.After(90 * time.Second):
		return stats.Violf("C14/idle/never-reported-idle", "%s: instance still reports updates in progress after 90 s", what)
	}
}

// fastIdle: the instance's own idle predicates (Updating, SyncPending, per-scale update counters) without the fixed sleeps.
func (m *machine) fastIdle(what string) error {
	drive.Settle(m.root)
	d, err := datastore.GetDataByUUIDName(dvid.UUID(m.root), "lm")
	if err != nil {
		return fmt.Errorf("GetDataByUUIDName: %v", err)
	}
	if u, ok := d.(interface{ AnyScaleUpdating() bool }); ok {
		for i := 0; u.AnyScaleUpdating(); i++ {
			if i > 60000 {
				return stats.Violf("C14/idle/never-reported-idle", "%s: per-scale update counters still non-zero after 60000 polls", what)
			}
			time.Sleep(time.Millisecond)
		}
	}
	return nil
}

// checkNode: level 0 against the model, every level k+1 against the vote over the server's level k.
func (m *machine) checkNode(vi int, what string, full bool) error {
	n := m.nodes[vi]
	g := m.g
	ctx := fmt.Sprintf("%s, reading node %d (last mutation there: %s)", what, vi, n.lastOp)
	op := n.lastOp
	cur, err := m.readBlocksDense(n.uuid, 0)
	if err != nil {
		if stats.SigOf(err) != "" {
			return err
		}
		return stats.Violf(m.sig("C14/read-blocks/failed"), "%s: %v", ctx, err)
	}
	if j := firstDiff(cur, n.st.SV); j != -1 {
		x, y, z := g.Coord(j)
		if n.foreign && (op == "split-supervoxel" || op == "split") {
			return stats.Violf("C14/"+op+"/scale0/differs-from-written/id-split-on-other-branch", "%s: GET blocks scale 0 voxel (%d,%d,%d) = %d, written %d (%d voxels differ); the split id had been split on another branch before", ctx, x, y, z, cur[j], n.st.SV[j], countDiff(cur, n.st.SV))
		}
		return stats.Violf(m.sig("C14/"+op+"/scale0/differs-from-written"), "%s: GET blocks scale 0 voxel (%d,%d,%d) = %d, written %d (%d voxels differ)", ctx, x, y, z, cur[j], n.st.SV[j], countDiff(cur, n.st.SV))
	}
	if full {
		raw, err := m.readRaw(n.uuid, 0)
		if err != nil {
			if stats.SigOf(err) != "" {
				return err
			}
			return stats.Violf(m.sig("C14/read-raw/failed"), "%s: %v", ctx, err)
		}
		if j := firstDiff(raw, cur); raw != nil && j != -1 {
			x, y, z := g.Coord(j)
			return stats.Violf(m.sig("C14/read/scale0/raw-differs-from-blocks"), "%s: voxel (%d,%d,%d) raw %d, blocks %d", ctx, x, y, z, raw[j], cur[j])
		}
	}
	_, size := m.levelBox(0)
	for k := 0; k < m.c.MaxLevel; k++ {
		want, lsize := downsample(cur, size, &m.vs)
		loff, _ := m.levelBox(k + 1)
		where := func(j int) string {
			x := int32(j%int(lsize[0])) + loff[0]
			y := int32((j/int(lsize[0]))%int(lsize[1])) + loff[1]
			z := int32(j/(int(lsize[0])*int(lsize[1]))) + loff[2]
			var cell []string
			for dz := int32(0); dz < 2; dz++ {
				for dy := int32(0); dy < 2; dy++ {
					for dx := int32(0); dx < 2; dx++ {
						hx, hy, hz := 2*(x-loff[0])+dx, 2*(y-loff[1])+dy, 2*(z-loff[2])+dz
						cell = append(cell, fmt.Sprint(cur[int(hz)*int(size[1])*int(size[0])+int(hy)*int(size[0])+int(hx)]))
					}
				}
			}
			B := g.B
			return fmt.Sprintf("scale-%d voxel (%d,%d,%d) [scale-%d block (%d,%d,%d)], the 2x2x2 scale-%d voxels beneath are [%s]", k+1, x, y, z, k+1, fdiv(x, B), fdiv(y, B), fdiv(z, B), k, strings.Join(cell, " "))
		}
		blk, err := m.readBlocksDense(n.uuid, k+1)
		if err != nil {
			if stats.SigOf(err) != "" {
				return err
			}
			return stats.Violf(m.sig("C14/read-blocks/failed"), "%s: %v", ctx, err)
		}
		if j := firstDiff(blk, want); j != -1 {
			return stats.Violf(m.sig("C14/"+op+"/"+scaleBucket(k+1)+"/differs-from-vote"), "%s: GET blocks scale=%d gives %d, documented vote %d at %s (%d of %d voxels differ)", ctx, k+1, blk[j], want[j], where(j), countDiff(blk, want), len(want))
		}
		raw, err := m.readRaw(n.uuid, k+1)
		if err != nil {
			if stats.SigOf(err) != "" {
				return err
			}
			return stats.Violf(m.sig("C14/read-raw/failed"), "%s: %v", ctx, err)
		}
		if j := firstDiff(raw, blk); raw != nil && j != -1 {
			return stats.Violf(m.sig("C14/read/"+scaleBucket(k+1)+"/raw-differs-from-blocks"), "%s: GET raw scale=%d gives %d, GET blocks %d (vote %d) at %s", ctx, k+1, raw[j], blk[j], want[j], where(j))
		}
		cur, size = blk, lsize
	}
	return nil
}

func fdiv(a, b int32) int32 {
	q := a / b
	if a%b != 0 && (a < 0) != (b < 0) {
		q--
	}
	return q
}

// ------------------------------------------------------------------ property

type outcome struct {
	applied map[string]int
	classes []string
	nontriv bool
}

func checkC14(c c14Case) (*outcome, error) {
	m, err := newMachine(c)
	if err != nil {
		return nil, fmt.Errorf("setup: %v", err)
	}
	fin := func() *outcome {
		o := &outcome{applied: m.applied, nontriv: m.nontriv}
		for k := range m.classes {
			o.classes = append(o.classes, k)
		}
		if m.vs.ties > 0 {
			o.classes = append(o.classes, "vote/tie-broken-to-smaller")
		}
		if m.vs.zeroMajority > 0 {
			o.classes = append(o.classes, "vote/zeros-outnumber-winner")
		}
		sort.Strings(o.classes)
		return o
	}
	for i, o := range c.Ops {
		ni := m.ni(o.Node)
		before := m.nodes[ni].lastOp
		nApplied := 0
		for _, v := range m.applied {
			nApplied += v
		}
		if err := m.apply(i, o); err != nil {
			return fin(), err
		}
		nAfter := 0
		for _, v := range m.applied {
			nAfter += v
		}
		_ = before
		if o.Kind == "newversion" || o.Kind == "branch" || nAfter == nApplied {
			continue
		}
		what := fmt.Sprintf("after op %d %s(node %d)", i, o.Kind, ni)
		// The request has returned and the instance reports itself idle by its own predicates (the ones BlockOnUpdating
		// polls): the pyramid of the touched version must be complete now.  A mismatch is re-read after the full
		// upstream-style wait only to label it: still wrong -> the ordinary signature, gone -> the idle report was early.
		if err := m.fastIdle(what); err != nil {
			return fin(), err
		}
		if err := m.checkNode(ni, what, false); err != nil {
			if !strings.Contains(stats.SigOf(err), "/differs-from-") {
				return fin(), err
			}
			if e2 := m.idle(what); e2 != nil {
				return fin(), e2
			}
			if e2 := m.checkNode(ni, what, false); e2 != nil {
				return fin(), e2
			}
			return fin(), stats.Violf(m.sig("C14/idle/reported-idle-before-pyramid-complete"), "%s: wrong while the instance reported idle, correct after BlockOnUpdating: %v", what, err)
		}
	}
	if err := m.idle("final sweep"); err != nil {
		return fin(), err
	}
	for vi := range m.nodes {
		if err := m.checkNode(vi, "final sweep", true); err != nil {
			return fin(), err
		}
	}
	return fin(), nil
}

// ------------------------------------------------------------------ generator

var opSigs = []string{"blocks", "raw-ingest", "raw-mutate", "split-supervoxel", "split", "inherited"}

// negativeKnown: is any finding that only shows at negative block coordinates listed as known?
func negativeKnown() (string, bool) {
	for _, op := range opSigs {
		for _, tail := range []string{"/panic", "/refused", "/scale0/differs-from-written", "/scale1/differs-from-vote", "/scale2+/differs-from-vote"} {
			if s := "C14/" + op + tail + "/negative-coords"; stats.IsKnown(s) {
				return s, true
			}
		}
	}
	for _, s := range []string{"C14/read-blocks/panic/negative-coords", "C14/read-raw/panic/negative-coords", "C14/read-blocks/failed/negative-coords", "C14/read-raw/failed/negative-coords",
		"C14/read/scale0/raw-differs-from-blocks/negative-coords", "C14/read/scale1/raw-differs-from-blocks/negative-coords", "C14/read/scale2+/raw-differs-from-blocks/negative-coords"} {
		if stats.IsKnown(s) {
			return s, true
		}
	}
	return "", false
}

func genContent(t *rapid.T, np int) content {
	return content{
		Pat:  rapid.SampledFrom([]int{0, 1, 2, 3, 3, 3, 4, 5, 6, 7}).Draw(t, "pat"),
		Seed: rapid.Uint32().Draw(t, "seed"),
		A:    rapid.IntRange(0, np-1).Draw(t, "ca"),
		B:    rapid.IntRange(0, np-1).Draw(t, "cb"),
		P:    rapid.IntRange(0, 5).Draw(t, "cp"),
	}
}

func genC14(t *rapid.T) c14Case {
	var c c14Case
	c.Edge = rapid.SampledFrom([]int32{16, 16, 16, 32}).Draw(t, "edge")
	if c.Edge == 32 {
		c.MaxLevel = rapid.IntRange(1, 2).Draw(t, "maxlevel")
	} else {
		c.MaxLevel = rapid.IntRange(1, 3).Draw(t, "maxlevel")
	}
	al := int32(1) << uint(c.MaxLevel)
	// extent: 1 or 2 level-MaxLevel blocks per axis while the volume stays <= 128^3 voxels
	base := int64(al * c.Edge)
	vox := base * base * base
	for a := 0; a < 3; a++ {
		mult := int32(1)
		if vox*2 <= 128*128*128 {
			mult = rapid.Int32Range(1, 2).Draw(t, "mult")
			vox *= int64(mult)
		}
		c.NB[a] = al * mult
	}
	if rapid.Bool().Draw(t, "negorigin") {
		for a := 0; a < 3; a++ {
			c.Origin[a] = al * rapid.SampledFrom([]int32{0, -1, -1, 1, -2}).Draw(t, "origin")
		}
	} else {
		for a := 0; a < 3; a++ {
			c.Origin[a] = al * rapid.SampledFrom([]int32{0, 0, 1, 3}).Draw(t, "origin")
		}
	}
	if sigNeg, negKnown := negativeKnown(); negKnown {
		// steer around the known finding: no write touches a block with a negative odd coordinate at any level
		c.AvoidNegOdd = true
		if c.negative() {
			stats.Excluded(sigNeg)
		}
	}
	np := rapid.IntRange(2, 6).Draw(t, "npal")
	pbase := rapid.SampledFrom([]uint64{1, 1, 1, 100, 1 << 32, 1 << 40}).Draw(t, "pbase")
	id := pbase
	for i := 0; i < np; i++ {
		c.Palette = append(c.Palette, id)
		id += uint64(rapid.IntRange(1, 3).Draw(t, "stride"))
	}
	// focus: most ops work on one or two level-1 parents (siblings under one level-2 parent) so that histories revisit them
	pg := [3]int32{c.NB[0] / 2, c.NB[1] / 2, c.NB[2] / 2}
	var focus [2][3]int32
	for a := 0; a < 3; a++ {
		focus[0][a] = rapid.Int32Range(0, pg[a]-1).Draw(t, "focus")
		if c.AvoidNegOdd && c.Origin[a] < 0 {
			// parents that hold a writable block: the first one, or any on the non-negative side
			if firstPos := -c.Origin[a] / 2; focus[0][a] < firstPos {
				focus[0][a] = 0
			}
		}
		focus[1][a] = focus[0][a]
	}
	ax := rapid.IntRange(0, 2).Draw(t, "focusaxis")
	focus[1][ax] = focus[0][ax] ^ 1
	if focus[1][ax] >= pg[ax] {
		focus[1][ax] = focus[0][ax]
	}
	// op kinds: mostly a staged history (mutations, new version, mutations on the child, ...), sometimes a free list
	mut := []string{"blocks", "blocks", "blocks", "raw", "raw", "raw", "raw", "splitsv", "splitsv", "split"}
	var plan []string
	if rapid.IntRange(0, 3).Draw(t, "staged") > 0 {
		plan = append(plan, rapid.SampledFrom([]string{"blocks", "raw"}).Draw(t, "kind0"))
		for j := rapid.IntRange(0, 2).Draw(t, "stage1"); j > 0; j-- {
			plan = append(plan, rapid.SampledFrom(mut).Draw(t, "kind"))
		}
		for st := rapid.IntRange(1, 2).Draw(t, "stages"); st > 0; st-- {
			plan = append(plan, rapid.SampledFrom([]string{"newversion", "newversion", "branch"}).Draw(t, "vkind"))
			for j := rapid.IntRange(1, 3).Draw(t, "stageN"); j > 0; j-- {
				plan = append(plan, rapid.SampledFrom(mut).Draw(t, "kind"))
			}
		}
	} else {
		kinds := append([]string{"newversion", "newversion", "newversion", "branch"}, mut...)
		plan = append(plan, rapid.SampledFrom([]string{"blocks", "raw"}).Draw(t, "kind0"))
		for j := rapid.IntRange(2, 8).Draw(t, "nops"); j > 0; j-- {
			plan = append(plan, rapid.SampledFrom(kinds).Draw(t, "kind"))
		}
	}
	for _, kind := range plan {
		o := cop{Kind: kind}
		o.Node = latestNode
		if rapid.IntRange(0, 5).Draw(t, "oldnode") == 0 {
			o.Node = rapid.IntRange(0, 5).Draw(t, "node")
		}
		switch o.Kind {
		case "blocks", "raw":
			o.Sel = rapid.SampledFrom([]int{0, 0, 1, 1, 2, 2, 3, 3, 4, 4}).Draw(t, "sel")
			if rapid.IntRange(0, 4).Draw(t, "infocus") > 0 {
				o.Parent = focus[rapid.IntRange(0, 1).Draw(t, "whichfocus")]
			} else {
				for a := 0; a < 3; a++ {
					o.Parent[a] = rapid.Int32Range(0, pg[a]-1).Draw(t, "parent")
				}
			}
			o.Mask = rapid.IntRange(0, 255).Draw(t, "mask")
			o.N = rapid.IntRange(0, 255).Draw(t, "n")
			if o.Sel == 3 {
				if o.Kind == "blocks" {
					for j := rapid.IntRange(1, 6).Draw(t, "nscatter"); j > 0; j-- {
						var b [3]int32
						for a := 0; a < 3; a++ {
							b[a] = rapid.Int32Range(0, c.NB[a]-1).Draw(t, "sb")
						}
						o.Blocks = append(o.Blocks, b)
					}
				} else {
					for a := 0; a < 3; a++ {
						o.Box[a] = rapid.Int32Range(0, c.NB[a]-1).Draw(t, "boxoff")
						o.Box[a+3] = rapid.Int32Range(0, 2).Draw(t, "boxsize")
					}
				}
			}
			o.C = genContent(t, np)
			if o.Kind == "raw" && rapid.IntRange(0, 2).Draw(t, "erase") == 0 {
				o.C.Pat = 1 // erase: all zero, mostly whole parents or parts of one
				o.Sel = rapid.SampledFrom([]int{1, 1, 2, 0}).Draw(t, "erasesel")
			}
		case "splitsv", "split":
			o.A = rapid.IntRange(0, 30).Draw(t, "a")
			o.B = rapid.IntRange(0, 5000).Draw(t, "b")
			o.N = rapid.IntRange(0, 3000).Draw(t, "n")
			o.Shape = rapid.IntRange(0, 5).Draw(t, "shape")
			o.Query = rapid.IntRange(0, 1).Draw(t, "query")
		}
		c.Ops = append(c.Ops, o)
	}
	return c
}

func TestC14Pyramid(t *testing.T) {
	rapid.Check(t, func(t *rapid.T) {
		c := genC14(t)
		stats.SetCur("C14", "TestC14Pyramid", c)
		out, err := checkC14(c)
		if !stats.Judge(t, "C14", "TestC14Pyramid", err, c) {
			return
		}
		cls := append([]string{fmt.Sprintf("maxlevel=%d", c.MaxLevel), fmt.Sprintf("edge=%d", c.Edge)}, out.classes...)
		for k, v := range out.applied {
			if v > 0 {
				cls = append(cls, "applied/"+k)
			}
		}
		sort.Strings(cls)
		stats.Record(stats.HashJSON(c), out.nontriv, cls, func() interface{} {
			var s []string
			for _, o := range c.Ops {
				s = append(s, fmt.Sprintf("%s@%d sel%d parent%v mask%d pat%d", o.Kind, o.Node, o.Sel, o.Parent, o.Mask, o.C.Pat))
			}
			return map[string]interface{}{"test": "pyramid", "edge": c.Edge, "maxlevel": c.MaxLevel, "origin": c.Origin, "nb": c.NB, "palette": c.Palette, "ops": strings.Join(s, "; "), "applied": out.applied, "classes": out.classes}
		})
	})
}

// TestC14Vote cross-checks the reference vote against a second, differently written evaluation of the documented rule.
type voteCase struct {
	V [8]uint64 `json:"v"`
}

func checkVote(c voteCase) error {
	cnt := map[uint64]int{}
	for _, l := range c.V {
		if l != 0 {
			cnt[l]++
		}
	}
	var want uint64
	wn := 0
	for _, l := range sortedKeysInt(cnt) { // ascending: the first label reaching the maximum count is the smallest
		if cnt[l] > wn {
			want, wn = l, cnt[l]
		}
	}
	v := c.V
	if got := vote(&v, nil); got != want {
		return stats.Violf("C14/reference-vote/formulations-disagree", "vote(%v) = %d, counting formulation %d", c.V, got, want)
	}
	// the dense down-sampler must agree with the single-cell vote
	if got, _ := downsample(c.V[:], [3]int32{2, 2, 2}, nil); len(got) != 1 || got[0] != want {
		return stats.Violf("C14/reference-vote/downsample-disagrees", "downsample(%v) = %v, want %d", c.V, got, want)
	}
	return nil
}

func TestC14Vote(t *testing.T) {
	rapid.Check(t, func(t *rapid.T) {
		var c voteCase
		for i := range c.V {
			c.V[i] = rapid.SampledFrom([]uint64{0, 0, 1, 2, 3, 7, 1 << 40}).Draw(t, "v")
		}
		if !stats.Judge(t, "C14", "TestC14Vote", checkVote(c), c) {
			return
		}
		distinct := map[uint64]bool{}
		for _, l := range c.V {
			if l != 0 {
				distinct[l] = true
			}
		}
		stats.Record(stats.HashJSON(c), len(distinct) >= 2, []string{fmt.Sprintf("vote-unit/distinct-labels=%d", len(distinct))}, func() interface{} { return c })
	})
}

func sortedKeysInt(m map[uint64]int) []uint64 {
	var out []uint64
	for k := range m {
		out = append(out, k)
	}
	sort.Slice(out, func(i, j int) bool { return out[i] < out[j] })
	return out
}

func TestReplay(t *testing.T) {
	stats.RunReplay(t, map[string]func(json.RawMessage) error{
		"TestC14Vote": func(raw json.RawMessage) error {
			var c voteCase
			if err := json.Unmarshal(raw, &c); err != nil {
				return err
			}
			return checkVote(c)
		},
		"TestC14Pyramid": func(raw json.RawMessage) error {
			var c c14Case
			if err := json.Unmarshal(raw, &c); err != nil {
				return err
			}
			_, err := checkC14(c)
			return err
		},
	})
}
