# Proposed CHECKS entry for C14 (paste into /verif/checks_config.py; T(...) is the helper defined there).
# Measured (16-core sandbox): 0.30-0.45 s per case alone, 0.37 s with 4 shards in parallel (60 cases: 20-22 s wall),
# ~0.5 s with 8 shards (200 cases: 90-116 s wall), 1.0-1.25 s with 16 shards (300 cases: 277-378 s wall; CPU- and
# memory-bound: up to 128^3 uint64 voxels per read).  quick = 50 x 4 ~ 20 s + build; thorough = 350 x 16 ~ 6-7.5 min.  TestC14Vote is pure (reference vote vs a second
# formulation of the documented rule; 20000 cases < 1 s).
# Findings on the unchanged tree (see props/c14/findings.go, replays under props/c14/findings/): the check fails on it
# until their signatures are listed as known:
#   C14/blocks/panic/negative-coords                                               findings/neg-odd-block-panic.json
#   C14/read-raw/single-unset-block/panic                                          findings/raw-get-single-unset-block.json
#   C14/split-supervoxel/scale0/differs-from-written/id-split-on-other-branch      findings/split-after-sibling-branch-split.json
# (same root cause as the first, other call sites: C14/raw-ingest/panic/negative-coords findings/neg-odd-block-panic-raw.json,
#  C14/blocks/scale1/differs-from-vote/negative-coords findings/neg-odd-block-wrong-octant.json; same root cause as the third
#  through the body split: C14/split/scale0/differs-from-written/id-split-on-other-branch).
# With the negative-coords finding listed the class "negative-odd-block-coords" is empty by construction
# ("negative-block-coords" stays populated through even coordinates), so it is not in required_classes.
ENTRY = {
    "C14": {
        "pkg": "c14",
        "level": "exploration",
        "tests": [
            T("TestC14Pyramid", (50, 4), (350, 16)),
            T("TestC14Vote", (20000, 1), (200000, 1)),
        ],
        "required_classes": [
            "maxlevel=1", "maxlevel=2", "maxlevel=3", "edge=16", "edge=32",
            "negative-block-coords", "single-octant", "all-eight", "partial-octants", "scattered",
            "child-version-octant", "mutate-to-zero", "parent-erased-to-zero", "split-supervoxel", "split-body",
            "applied/blocks-ingest", "applied/raw-ingest", "applied/raw-mutate", "applied/version",
            "several-level1-parents-of-one-level2-parent", "one-mutation-spans-several-level2-blocks",
            "vote/tie-broken-to-smaller", "vote/zeros-outnumber-winner",
        ],
        "rule": "rapid-generated model-based histories (4-12 ops, mostly staged: mutations, commit+newversion/branch, mutations on the child, ...) "
                "on a labelmap instance with BlockSize 16^3 or 32^3 and MaxDownresLevel 1..3 (32^3: 1..2); extent = 1-2 blocks of the top level per axis "
                "(<= 128^3 voxels), origin a multiple of 2^MaxDownresLevel blocks incl. negative and zero-straddling origins, so every level-k block is wholly "
                "inside what is read. Ops: POST blocks?downres=true onto unwritten blocks (one octant of a level-1 parent, all eight, an octant subset, "
                "scattered blocks, one octant in each level-1 parent of a level-2 parent), POST raw (ingest) / POST raw?mutate=true over block boxes (single "
                "block, whole parent, half/quarter of a parent, free boxes straddling parents; a third of them erase to zero), split-supervoxel (default and "
                "explicit downres=true; 6 shapes), split (body split; enabled through the documented AllowLabelmapSplit option), commit+newversion, branch. "
                "Voxel contents are pure functions of the coordinate (solid, zero, checker, hashed noise over a 2-6 label palette with a zero weight, stripes, "
                "half-spaces, boxes painted over the current content, sparse specks; labels up to 2^40), so 2x2x2 cells with ties, with zeros outnumbering "
                "the winner and mixed cells are frequent at every level. After every mutation, once the request has returned and the instance reports idle "
                "(Updating/SyncPending/per-scale counters), and in a final sweep over every version after datastore.BlockOnUpdating + the AnyScaleUpdating "
                "poll (as the upstream multiscale tests do, no second evaluation): level 0 (GET blocks, GET raw, supervoxels=true) equals the reference "
                "model of what was written; for every k < MaxDownresLevel GET blocks scale=k+1 equals the documented vote (most frequent non-zero label, "
                "ties to the smaller, all zero -> 0) applied to the server's own scale-k volume over the parent-aligned extent (absent block = 0, floor "
                "alignment), and GET raw scale=k+1 equals GET blocks scale=k+1; no response may be a recovered panic. "
                "Non-trivial: >=2 mutations touching different octants of one level-1 parent block, the later one on a descendant version of the earlier "
                "one's. Distinct = hash of the case value.",
        "assumptions": [
            "POST blocks is only issued onto blocks never written in the version's lineage (ingest); overwrites go through POST raw?mutate=true "
            "(the option is undocumented in the labelmap help but is what labelarray documents and what the upstream tests and clients use); a raw box "
            "with written and unwritten blocks is posted with mutate=true",
            "POST blocks?downres=false and split-supervoxel?downres=false are outside the property (down-sampling not enabled) and are not generated",
            "supervoxel ids handed out by the server are adopted, not predicted; after a body split level 0 is only required to be a consistent "
            "relabelling of the body's supervoxels by (supervoxel, inside/outside the split volume) and unchanged elsewhere",
            "split volumes are non-empty proper subsets of the target; a supervoxel id that was split away in a lineage is never written again there; "
            "the largest palette id is registered with POST maxlabel at setup so that server-issued ids never collide with palette ids",
            "block sizes are cubic (the help text calls down-sampling not robust for non-cubic chunks); mapped reads (supervoxels=false) at scale>0 are not asserted",
        ],
    },
}
