# Proposed TEXT entry for C14 (paste into /verif/manifest_text.py).
ENTRY = {
    "C14": {
        "technique": "property-based testing (rapid), in-process HTTP driver: model-based histories on a labelmap pyramid; "
                     "oracle = the documented 2x2x2 vote (independent reference implementation, cross-checked by a pure test) applied level to level to the "
                     "server's own data (GET blocks and GET raw at every scale, supervoxels=true), a reference model of the written voxels for level 0, "
                     "and a raw-vs-blocks differential at every scale; evaluated when the instance reports idle, with no retry",
        "level_text": "Generated-input exploration with explicit oracles. Each case creates a labelmap with BlockSize 16^3/32^3 and MaxDownresLevel 1-3 on an "
                      "extent aligned to the top level (also at negative and zero-straddling block coordinates) and runs 4-12 operations: POST blocks?downres=true "
                      "(single octant, all eight, octant subsets, scattered, octants spread over the level-1 parents of one level-2 parent), POST raw ingest and "
                      "mutate (incl. erasing some or all siblings of a parent to zero), split-supervoxel (default downres), body split, commit/newversion/branch "
                      "with writes in a child version next to octants written in an ancestor. After every mutation and for every version at the end, every level "
                      "k+1 <= MaxDownresLevel read through both endpoints must equal the vote over the level-k volume the server itself returns, and level 0 must "
                      "equal what was written. Histories x contents x geometries are unbounded, so this is search, not enumeration: absence of failures is not a "
                      "proof. Three defects fail on the unchanged tree and are reported as findings (negative odd block coordinates in getHiresChanges: panic or "
                      "wrong octant; GET raw of one unset block panics; ingest of a supervoxel that was split on another branch is indexed under label 0 so a "
                      "later split misses blocks); the generator steers around each listed one so the search continues behind it.",
        "level_note": "Volumes <= 128^3 voxels, so 32^3 blocks only reach MaxDownresLevel 2 and MaxDownresLevel 3 uses one top-level block per axis; cubic blocks only; "
                      "<= 12 operations, palette of 2-6 labels (up to 2^40) plus server-issued ids. The store is Badger, where all four write paths run the "
                      "down-sampling synchronously inside the request: the 'idle report is early' half of the property can only be falsified by an asynchronous "
                      "path, which exists only for stores with request buffers (gbucket) and is not reachable here. With the negative-coordinate finding listed, "
                      "writes avoid blocks that have a negative odd coordinate at any level (negative even coordinates and reads at negative offsets remain). "
                      "downres=false variants, mapped (supervoxels=false) reads at scale>0 and ingest-supervoxels (caller supplies the pyramid) are outside the property.",
    },
}
