// C12 — server-issued identifiers are unique and only move forward.
package c12

import (
	"encoding/binary"
	"encoding/json"
	"fmt"
	"os"
	"path/filepath"
	"sort"
	"strings"
	"testing"

	"pgregory.net/rapid"

	"verif/drive"
	"verif/stats"
)

func TestMain(m *testing.M) {
	rc := m.Run()
	stats.Flush()
	os.Exit(rc)
}

// A history is a list of segments: allocations, then a restart / crash.
type seg struct {
	N       int    `json:"n"`       // number of allocation requests in this segment
	Mix     int    `json:"mix"`     // selects the mix of allocation kinds
	Ingest  int    `json:"ingest"`  // 0 none; else ingest labels up to base+Ingest on some version before the allocations
	Restart string `json:"restart"` // clean | abrupt | crash | none
	CrashAt int    `json:"crash_at,omitempty"` // crash: die at the CrashAt-th store write of the next allocation request
	Conc    int    `json:"conc,omitempty"`     // >1: issue that many allocation requests concurrently at the end of the segment
	SetNext int    `json:"set_next,omitempty"` // administrator repositions the label counter (only uniqueness is then required)
	Renum   int    `json:"renumber,omitempty"` // >0: renumber the target body to a caller-chosen label this far above every present label
	SplitTo int    `json:"split_to,omitempty"` // >0: split a supervoxel of the target body naming the remain (and, if odd, the split) label this far above every present label
}

type c12Case struct {
	Segs []seg `json:"segs"`
}

const blk = 16

var ext = [3]int32{2 * blk, 2 * blk, 2 * blk}

type world struct {
	c     *drive.Child
	dir   string
	root  string
	head  string // open master leaf
	nodes []string

	mutIDs     []uint64 // in issue order (sequential requests only)
	mutSeen    map[uint64]string
	labels     []uint64 // allocated labels in issue order
	labelSeen  map[uint64]string
	maxPresent uint64 // largest label stored in any version
	splitNamed int    // split-supervoxel requests with caller-named labels that were accepted
	adminMoved bool
	instIDs    map[uint64]string
	verIDs     map[uint64]string
	repoIDs    map[uint64]string
	bodies     []uint64 // existing (unmerged) original bodies available as merge fodder
	target     uint64
	ninst      int
	allocs     int
}

func u64s(v []uint64) []byte {
	s := make([]string, len(v))
	for i, x := range v {
		s[i] = fmt.Sprint(x)
	}
	return []byte("[" + strings.Join(s, ",") + "]")
}

func volume() []byte {
	// one label per 4x4x4 cell: labels 1..512
	b := make([]byte, int(ext[0])*int(ext[1])*int(ext[2])*8)
	i := 0
	for z := int32(0); z < ext[2]; z++ {
		for y := int32(0); y < ext[1]; y++ {
			for x := int32(0); x < ext[0]; x++ {
				l := uint64(1 + int(x/4) + 8*int(y/4) + 64*int(z/4))
				binary.LittleEndian.PutUint64(b[i:], l)
				i += 8
			}
		}
	}
	return b
}

func (w *world) viol(sig, format string, args ...interface{}) error {
	return stats.Violf("C12/"+sig, format, args...)
}

func (w *world) died(what string, e error) error {
	if e == drive.ErrChildDied {
		return w.viol("server-process-died", "%s: the server process died; stderr: %s", what, w.c.StderrTail(1000))
	}
	return fmt.Errorf("harness: %s: %v", what, e)
}

func (w *world) setup() error {
	r, err := w.c.Do("POST", "repos", []byte(`{"alias":"c12","description":"ids"}`))
	if err != nil {
		return err
	}
	var rr struct{ Root string }
	if json.Unmarshal(r.Body, &rr) != nil || rr.Root == "" {
		return fmt.Errorf("new repo: %s", r)
	}
	w.root, w.head = rr.Root, rr.Root
	w.nodes = []string{rr.Root}
	b, _ := json.Marshal(map[string]string{"typename": "labelmap", "dataname": "lm", "BlockSize": fmt.Sprintf("%d,%d,%d", blk, blk, blk)})
	if r, err = w.c.Do("POST", "repo/"+w.root+"/instance", b); err != nil || !r.OK() {
		return fmt.Errorf("new labelmap: %v %s", err, r)
	}
	if r, err = w.c.Do("POST", fmt.Sprintf("node/%s/lm/raw/0_1_2/%d_%d_%d/0_0_0", w.root, ext[0], ext[1], ext[2]), volume()); err != nil || !r.OK() {
		return fmt.Errorf("ingest: %v %s", err, r)
	}
	w.maxPresent = 512
	for l := uint64(2); l <= 512; l++ {
		w.bodies = append(w.bodies, l)
	}
	w.target = 1
	return w.c.Settle(true)
}

func (w *world) noteMut(id uint64, what string) error {
	if id == 0 {
		return w.viol("mutation-id/zero", "%s returned mutation id 0", what)
	}
	if prev, dup := w.mutSeen[id]; dup {
		return w.viol("mutation-id/issued-twice", "%s got mutation id %d, already issued to %s", what, id, prev)
	}
	if n := len(w.mutIDs); n > 0 && id <= w.mutIDs[n-1] {
		return w.viol("mutation-id/not-increasing", "%s got mutation id %d after %d was issued", what, id, w.mutIDs[n-1])
	}
	w.mutSeen[id] = what
	w.mutIDs = append(w.mutIDs, id)
	return nil
}

func (w *world) noteLabel(l uint64, what string, ordered bool) error {
	if l == 0 {
		return w.viol("label/zero", "%s allocated label 0", what)
	}
	if prev, dup := w.labelSeen[l]; dup {
		return w.viol("label/issued-twice", "%s allocated label %d, already allocated to %s", what, l, prev)
	}
	if !w.adminMoved {
		if ordered {
			if n := len(w.labels); n > 0 && l <= w.labels[n-1] {
				return w.viol("label/not-increasing", "%s allocated label %d after %d", what, l, w.labels[n-1])
			}
		}
		if l <= w.maxPresent {
			return w.viol("label/not-above-present-labels", "%s allocated label %d but label %d is already stored in the volume", what, l, w.maxPresent)
		}
	}
	w.labelSeen[l] = what
	if ordered {
		w.labels = append(w.labels, l)
	}
	return nil
}

type allocReq struct {
	kind   string
	method string
	url    string
	body   []byte
}

// nextAlloc picks the next allocation request (sequential state is advanced when it is *issued*).
func (w *world) nextAlloc(mix, i int) allocReq {
	kinds := [][]string{
		{"merge"},
		{"merge", "merge", "nextlabel", "cleave"},
		{"nextlabel", "nextlabel", "cleave", "merge"},
		{"merge", "cleave", "nextlabel", "newversion", "newinstance", "newrepo"},
	}[mix%4]
	k := kinds[i%len(kinds)]
	if k == "merge" && len(w.bodies) == 0 {
		k = "nextlabel"
	}
	switch k {
	case "merge":
		m := w.bodies[0]
		w.bodies = w.bodies[1:]
		return allocReq{"merge", "POST", "node/" + w.head + "/lm/merge", u64s([]uint64{w.target, m})}
	case "cleave":
		// cleave one supervoxel that was merged into the target earlier (target keeps supervoxel 1)
		sv := uint64(0)
		for s := uint64(512); s >= 2; s-- {
			if w.cleavable(s) {
				sv = s
				break
			}
		}
		if sv == 0 {
			return allocReq{"nextlabel", "POST", "node/" + w.head + "/lm/nextlabel/1", nil}
		}
		return allocReq{"cleave:" + fmt.Sprint(sv), "POST", fmt.Sprintf("node/%s/lm/cleave/%d", w.head, w.target), u64s([]uint64{sv})}
	case "newversion":
		return allocReq{"newversion", "", "", nil}
	case "newinstance":
		w.ninst++
		b, _ := json.Marshal(map[string]string{"typename": "keyvalue", "dataname": fmt.Sprintf("kv%d", w.ninst)})
		return allocReq{"newinstance", "POST", "repo/" + w.root + "/instance", b}
	case "newrepo":
		return allocReq{"newrepo", "POST", "repos", []byte(`{"alias":"extra","description":"x"}`)}
	}
	return allocReq{"nextlabel", "POST", fmt.Sprintf("node/%s/lm/nextlabel/%d", w.head, 1+i%3), nil}
}

var merged = map[*world]map[uint64]bool{}

func (w *world) cleavable(sv uint64) bool { return merged[w][sv] }

// issue executes one allocation request and records the identifiers it returned.
func (w *world) issue(a allocReq) error {
	w.allocs++
	what := fmt.Sprintf("alloc #%d %s", w.allocs, a.kind)
	if a.kind == "newversion" {
		r, err := w.c.Do("POST", "node/"+w.head+"/commit", []byte(`{"note":"c"}`))
		if err != nil {
			return w.died(what, err)
		}
		r, err = w.c.Do("POST", "node/"+w.head+"/newversion", []byte(`{"note":"nv"}`))
		if err != nil {
			return w.died(what, err)
		}
		var c struct{ Child string }
		if r.OK() && json.Unmarshal(r.Body, &c) == nil && c.Child != "" {
			w.head = c.Child
			w.nodes = append(w.nodes, c.Child)
		}
		return nil
	}
	r, err := w.c.Do(a.method, a.url, a.body)
	if err != nil {
		return w.died(what, err)
	}
	if r.IsPanic() {
		return w.viol("panic-response", "%s: %s", what, r)
	}
	return w.record(a, r, what, true)
}

func (w *world) record(a allocReq, r drive.Resp, what string, ordered bool) error {
	if !r.OK() {
		return nil // a refused request issues nothing
	}
	switch {
	case a.kind == "merge":
		var v struct{ MutationID uint64 }
		json.Unmarshal(r.Body, &v)
		var pair []uint64
		json.Unmarshal(a.body, &pair)
		if len(pair) == 2 {
			merged[w][pair[1]] = true
		}
		if ordered {
			return w.noteMut(v.MutationID, what)
		}
		if prev, dup := w.mutSeen[v.MutationID]; dup || v.MutationID == 0 {
			return w.viol("mutation-id/issued-twice", "%s (concurrent) got mutation id %d, already issued to %s", what, v.MutationID, prev)
		}
		w.mutSeen[v.MutationID] = what
	case strings.HasPrefix(a.kind, "cleave"):
		var v struct{ MutationID, CleavedLabel uint64 }
		json.Unmarshal(r.Body, &v)
		var sv uint64
		fmt.Sscanf(a.kind, "cleave:%d", &sv)
		delete(merged[w], sv)
		if ordered {
			if err := w.noteMut(v.MutationID, what); err != nil {
				return err
			}
		} else {
			if prev, dup := w.mutSeen[v.MutationID]; dup || v.MutationID == 0 {
				return w.viol("mutation-id/issued-twice", "%s (concurrent) got mutation id %d, already issued to %s", what, v.MutationID, prev)
			}
			w.mutSeen[v.MutationID] = what
		}
		return w.noteLabel(v.CleavedLabel, what, ordered)
	case a.kind == "nextlabel":
		var v struct{ Start, End uint64 }
		if json.Unmarshal(r.Body, &v) != nil || v.End < v.Start {
			return w.viol("nextlabel/bad-answer", "%s: %s", what, r)
		}
		for l := v.Start; l <= v.End; l++ {
			if err := w.noteLabel(l, what, ordered); err != nil {
				return err
			}
		}
	}
	return nil
}

// idSweep reads instance, version and repo ids from the server and checks they never repeat over the history.
func (w *world) idSweep(when string) error {
	raw, err := w.c.IDs()
	if err != nil {
		return w.died("ids", err)
	}
	var ids struct {
		UUIDToVersion map[string]uint64
		VersionToUUID map[string]string
		RepoToUUID    map[string]string
		InstanceIDs   map[string]string
		NextRepoID    uint64
		NextVersionID uint64
		NextInstance  uint64
	}
	if err := json.Unmarshal(raw, &ids); err != nil {
		return fmt.Errorf("harness: ids json: %v", err)
	}
	for u, v := range ids.UUIDToVersion {
		if prev, ok := w.verIDs[v]; ok && prev != u {
			return w.viol("version-id/issued-twice", "%s: version id %d names uuid %s, it was issued to %s before", when, v, u, prev)
		}
		w.verIDs[v] = u
		if v >= ids.NextVersionID {
			return w.viol("version-id/counter-not-ahead", "%s: version id %d in use but the next-id counter is %d", when, v, ids.NextVersionID)
		}
	}
	for rs, u := range ids.RepoToUUID {
		var rid uint64
		fmt.Sscan(rs, &rid)
		if prev, ok := w.repoIDs[rid]; ok && prev != u {
			return w.viol("repo-id/issued-twice", "%s: repo id %d names root %s, it was issued to %s before", when, rid, u, prev)
		}
		w.repoIDs[rid] = u
		if rid >= ids.NextRepoID {
			return w.viol("repo-id/counter-not-ahead", "%s: repo id %d in use but the next-id counter is %d", when, rid, ids.NextRepoID)
		}
	}
	for is, du := range ids.InstanceIDs {
		var iid uint64
		fmt.Sscan(is, &iid)
		if prev, ok := w.instIDs[iid]; ok && prev != du {
			return w.viol("instance-id/issued-twice", "%s: instance id %d names data %s, it was issued to data %s before", when, iid, du, prev)
		}
		w.instIDs[iid] = du
	}
	return nil
}

func (w *world) restart(kind string) error {
	if kind == "clean" {
		if e := w.c.Shutdown(); e != nil {
			return w.viol("clean-shutdown-failed", "%v; stderr: %s", e, w.c.StderrTail(600))
		}
	} else {
		w.c.Kill()
	}
	nc, e := drive.StartChild(filepath.Join(w.dir, "srv"))
	if e != nil {
		return w.viol("restart-failed/"+kind, "server did not come up on the same stores: %v", e)
	}
	w.c = nc
	return nil
}

func checkC12(c c12Case) (int, error) {
	base := os.Getenv("VERIF_SCRATCH_DIR")
	if base == "" {
		base = os.TempDir()
	}
	dir, e := os.MkdirTemp(base, "c12-")
	if e != nil {
		return 0, e
	}
	defer os.RemoveAll(dir)
	w := &world{dir: dir, mutSeen: map[uint64]string{}, labelSeen: map[uint64]string{}, instIDs: map[uint64]string{}, verIDs: map[uint64]string{}, repoIDs: map[uint64]string{}}
	merged[w] = map[uint64]bool{}
	defer delete(merged, w)
	if w.c, e = drive.StartChild(filepath.Join(dir, "srv")); e != nil {
		return 0, fmt.Errorf("harness: start child: %v", e)
	}
	defer func() {
		if w.c != nil {
			w.c.Kill()
		}
	}()
	if e := w.setup(); e != nil {
		return 0, w.died("setup", e)
	}
	if e := w.idSweep("after setup"); e != nil {
		return 0, e
	}
	restarts := 0
	for si, s := range c.Segs {
		if s.SetNext > 0 {
			// domain: the administrator moves the counter to a value above every label issued or stored so far (the help text
			// calls lower values dangerous: the server does not check them, re-issuing labels is then expected)
			top := w.maxPresent
			for l := range w.labelSeen {
				if l > top {
					top = l
				}
			}
			r, err := w.c.Do("POST", fmt.Sprintf("node/%s/lm/set-nextlabel/%d", w.head, top+uint64(s.SetNext)), nil)
			if err != nil {
				return restarts, w.died("set-nextlabel", err)
			}
			if r.OK() {
				w.adminMoved = true
			}
		}
		if s.Renum > 0 && w.c.Alive() {
			big := w.maxPresent + uint64(s.Renum)
			if n := len(w.labels); n > 0 && w.labels[n-1] >= big {
				big = w.labels[n-1] + uint64(s.Renum)
			}
			r, err := w.c.Do("POST", "node/"+w.head+"/lm/renumber", u64s([]uint64{big, w.target}))
			if err != nil {
				return restarts, w.died("renumber", err)
			}
			if r.OK() {
				w.target = big
				w.maxPresent = big // a body label is a label present in the volume
			}
			if err := w.c.Settle(true); err != nil {
				return restarts, w.died("settle", err)
			}
		}
		if s.SplitTo > 0 && w.c.Alive() {
			// split-supervoxel with caller-named labels (documented options remain= / split=): both become labels present in the volume
			big := w.maxPresent + uint64(s.SplitTo)
			if n := len(w.labels); n > 0 && w.labels[n-1] >= big {
				big = w.labels[n-1] + uint64(s.SplitTo)
			}
			r, err := w.c.Do("GET", fmt.Sprintf("node/%s/lm/supervoxels/%d", w.head, w.target), nil)
			if err != nil {
				return restarts, w.died("supervoxels", err)
			}
			var svs []uint64
			json.Unmarshal(r.Body, &svs)
			if r.OK() && len(svs) > 0 {
				sort.Slice(svs, func(i, j int) bool { return svs[i] < svs[j] })
				sv := svs[s.SplitTo%len(svs)]
				rr, err := w.c.Do("GET", fmt.Sprintf("node/%s/lm/sparsevol/%d?format=srles&supervoxels=true", w.head, sv), nil)
				if err != nil {
					return restarts, w.died("sparsevol", err)
				}
				if rr.OK() && len(rr.Body) >= 32 {
					body := make([]byte, 12, 28)
					body[1] = 3
					binary.LittleEndian.PutUint32(body[8:], 1)
					body = append(body, rr.Body[:16]...) // the first run of the supervoxel is split off
					q := fmt.Sprintf("?remain=%d", big)
					top := big
					if s.SplitTo%2 == 1 {
						q += fmt.Sprintf("&split=%d", big-1)
					}
					pr, err := w.c.Do("POST", fmt.Sprintf("node/%s/lm/split-supervoxel/%d%s", w.head, sv, q), body)
					if err != nil {
						return restarts, w.died("split-supervoxel", err)
					}
					if pr.OK() {
						w.maxPresent = top
						w.splitNamed++
					}
					if err := w.c.Settle(true); err != nil {
						return restarts, w.died("settle", err)
					}
				}
			}
		}
		if s.Ingest > 0 {
			// write one block with a large label on the current head (mutate), settle, then allocations must exceed it
			big := w.maxPresent + uint64(s.Ingest)
			if len(w.labels) > 0 && w.labels[len(w.labels)-1] >= big {
				big = w.labels[len(w.labels)-1] + uint64(s.Ingest)
			}
			b := make([]byte, blk*blk*blk*8)
			for i := 0; i < blk*blk*blk; i++ {
				binary.LittleEndian.PutUint64(b[8*i:], big)
			}
			r, err := w.c.Do("POST", fmt.Sprintf("node/%s/lm/raw/0_1_2/%d_%d_%d/%d_%d_%d?mutate=true", w.head, blk, blk, blk, blk, blk, blk), b)
			if err != nil {
				return restarts, w.died("ingest of large label", err)
			}
			if r.OK() {
				// labels 1.. in that block vanished: keep merge fodder honest by dropping bodies that lived only there
				w.maxPresent = big
				w.dropBodiesOfBlock(1, 1, 1)
			}
			if err := w.c.Settle(true); err != nil {
				return restarts, w.died("settle", err)
			}
		}
		for i := 0; i < s.N; i++ {
			a := w.nextAlloc(s.Mix, i)
			if s.Restart == "crash" && i == s.N-1 {
				if err := w.c.Arm(s.CrashAt, ""); err != nil {
					return restarts, w.died("arm", err)
				}
				if a.kind == "newversion" {
					a = allocReq{"nextlabel", "POST", "node/" + w.head + "/lm/nextlabel/1", nil}
				}
				r, err := w.c.Do(a.method, a.url, a.body)
				if err == nil {
					// the request completed before its CrashAt-th write: it is a normal acknowledged allocation
					w.c.Disarm()
					w.allocs++
					if e := w.record(a, r, fmt.Sprintf("alloc #%d %s (armed, completed)", w.allocs, a.kind), true); e != nil {
						return restarts, e
					}
				}
				continue
			}
			if err := w.issue(a); err != nil {
				return restarts, err
			}
		}
		if s.Conc > 1 && w.c.Alive() {
			var reqs []drive.ChildRequest
			var as []allocReq
			for i := 0; i < s.Conc; i++ {
				a := w.nextAlloc(s.Mix, i)
				if a.kind == "newversion" || a.kind == "newrepo" || a.kind == "newinstance" {
					a = allocReq{"nextlabel", "POST", "node/" + w.head + "/lm/nextlabel/2", nil}
				}
				as = append(as, a)
				reqs = append(reqs, drive.ChildRequest{Method: a.method, URL: a.url, Body: a.body})
			}
			rs, err := w.c.DoBatch(reqs)
			if err != nil {
				return restarts, w.died("concurrent allocations", err)
			}
			for i, r := range rs {
				w.allocs++
				if e := w.record(as[i], r, fmt.Sprintf("alloc #%d %s (1 of %d concurrent)", w.allocs, as[i].kind, s.Conc), false); e != nil {
					return restarts, e
				}
			}
			// later sequential allocations must exceed everything handed out concurrently
			for l := range w.labelSeen {
				if n := len(w.labels); n == 0 || l > w.labels[n-1] {
					w.labels = append(w.labels, l)
					sort.Slice(w.labels, func(i, j int) bool { return w.labels[i] < w.labels[j] })
				}
			}
			for id := range w.mutSeen {
				if n := len(w.mutIDs); n == 0 || id > w.mutIDs[n-1] {
					w.mutIDs = append(w.mutIDs, id)
					sort.Slice(w.mutIDs, func(i, j int) bool { return w.mutIDs[i] < w.mutIDs[j] })
				}
			}
		}
		if w.c.Alive() {
			if err := w.c.Settle(false); err != nil && err != drive.ErrChildDied {
				return restarts, w.died("settle", err)
			}
		}
		if w.c.Alive() {
			if e := w.idSweep(fmt.Sprintf("end of segment %d", si)); e != nil {
				return restarts, e
			}
		}
		switch s.Restart {
		case "clean", "abrupt":
			if !w.c.Alive() {
				s.Restart = "abrupt"
			}
			if e := w.restart(s.Restart); e != nil {
				return restarts, e
			}
			restarts++
		case "crash":
			if w.c.Alive() {
				w.c.Kill()
			}
			if e := w.restart("abrupt"); e != nil {
				return restarts, stats.Violf("C12/restart-failed/after-crash-at-write", "segment %d crash at write %d: %v", si, s.CrashAt, e)
			}
			restarts++
		default:
			continue
		}
		// a label written by the armed request may be stored although the request was never acknowledged: recompute what is present
		if e := w.refreshMaxPresent(); e != nil {
			return restarts, e
		}
		if e := w.idSweep(fmt.Sprintf("after restart %d", restarts)); e != nil {
			return restarts, e
		}
	}
	return restarts, nil
}

func (w *world) dropBodiesOfBlock(bx, by, bz int32) {
	gone := map[uint64]bool{}
	for z := bz * blk; z < (bz+1)*blk; z += 4 {
		for y := by * blk; y < (by+1)*blk; y += 4 {
			for x := bx * blk; x < (bx+1)*blk; x += 4 {
				gone[uint64(1+int(x/4)+8*int(y/4)+64*int(z/4))] = true
			}
		}
	}
	var keep []uint64
	for _, b := range w.bodies {
		if !gone[b] {
			keep = append(keep, b)
		}
	}
	w.bodies = keep
	for sv := range merged[w] {
		if gone[sv] {
			delete(merged[w], sv)
		}
	}
}

// refreshMaxPresent re-reads the largest stored label over all versions (raw supervoxels), so the "greater than every label
// already present" oracle never relies on what an unacknowledged request may or may not have written.
func (w *world) refreshMaxPresent() error {
	for _, u := range w.nodes {
		r, err := w.c.Do("GET", fmt.Sprintf("node/%s/lm/raw/0_1_2/%d_%d_%d/0_0_0?supervoxels=true", u, ext[0], ext[1], ext[2]), nil)
		if err != nil {
			return w.died("read volume", err)
		}
		if !r.OK() {
			continue
		}
		for i := 0; i+8 <= len(r.Body); i += 8 {
			if l := binary.LittleEndian.Uint64(r.Body[i:]); l > w.maxPresent {
				w.maxPresent = l
			}
		}
	}
	return nil
}

func genC12(t *rapid.T) c12Case {
	var c c12Case
	nseg := rapid.IntRange(2, 4).Draw(t, "nseg")
	for i := 0; i < nseg; i++ {
		s := seg{
			// allocation counts are steered to the mutation-id persistence stride (100) and its multiples
			N:       rapid.SampledFrom([]int{0, 1, 2, 3, 7, 98, 99, 100, 101, 102, 199, 200, 201}).Draw(t, "n"),
			Mix:     rapid.IntRange(0, 3).Draw(t, "mix"),
			Restart: rapid.SampledFrom([]string{"clean", "abrupt", "abrupt", "crash", "none"}).Draw(t, "restart"),
		}
		if s.Restart == "crash" {
			s.CrashAt = rapid.IntRange(1, 6).Draw(t, "crashat")
			if s.N == 0 {
				s.N = 1
			}
		}
		if rapid.IntRange(0, 3).Draw(t, "ingest") == 0 {
			s.Ingest = rapid.SampledFrom([]int{1, 5, 1000, 1 << 20}).Draw(t, "ingestby")
		}
		if rapid.IntRange(0, 3).Draw(t, "conc") == 0 {
			s.Conc = rapid.IntRange(2, 8).Draw(t, "nconc")
		}
		if rapid.IntRange(0, 3).Draw(t, "renum") == 0 {
			s.Renum = rapid.SampledFrom([]int{1, 2, 500, 1 << 20}).Draw(t, "renumby")
		}
		if rapid.IntRange(0, 3).Draw(t, "splitto") == 0 {
			s.SplitTo = rapid.SampledFrom([]int{2, 3, 500, 1<<20 + 1}).Draw(t, "splitby")
		}
		if rapid.IntRange(0, 11).Draw(t, "admin") == 0 {
			s.SetNext = rapid.SampledFrom([]int{3, 600, 100000}).Draw(t, "setnext")
		}
		c.Segs = append(c.Segs, s)
	}
	// a history always ends with a restart followed by allocations
	c.Segs[len(c.Segs)-1].Restart = rapid.SampledFrom([]string{"clean", "abrupt"}).Draw(t, "lastrestart")
	c.Segs = append(c.Segs, seg{N: rapid.SampledFrom([]int{1, 2, 5}).Draw(t, "tail"), Mix: rapid.IntRange(0, 3).Draw(t, "tailmix"), Restart: "none"})
	return c
}

func TestC12Restart(t *testing.T) {
	rapid.Check(t, func(t *rapid.T) {
		c := genC12(t)
		stats.SetCur("C12", "TestC12Restart", c)
		restarts, err := checkC12(c)
		if !stats.Judge(t, "C12", "TestC12Restart", err, c) {
			return
		}
		cls := map[string]bool{"history": true}
		allocBefore, stride, conc := false, false, false
		for _, s := range c.Segs {
			cls["restart/"+s.Restart] = true
			if s.N > 0 {
				allocBefore = true
			}
			if s.N >= 98 && s.Restart != "none" {
				stride = true
			}
			if s.Conc > 1 {
				conc = true
			}
			if s.Ingest > 0 {
				cls["ingest-of-larger-labels"] = true
			}
			if s.SetNext > 0 {
				cls["administrator-set-nextlabel"] = true
			}
			if s.Renum > 0 {
				cls["renumber-to-caller-chosen-label"] = true
			}
			if s.SplitTo > 0 {
				cls["split-supervoxel-with-caller-named-labels"] = true
			}
		}
		if stride {
			cls["restart-near-mutation-id-stride"] = true
		}
		if conc {
			cls["concurrent-allocations"] = true
		}
		var cl []string
		for k := range cls {
			cl = append(cl, k)
		}
		sort.Strings(cl)
		stats.Count("restarts", int64(restarts))
		stats.Record(stats.HashJSON(c), (allocBefore && restarts >= 1) || conc, cl, func() interface{} { return map[string]interface{}{"test": "ids", "case": c} })
	})
}

func TestReplay(t *testing.T) {
	stats.RunReplay(t, map[string]func(json.RawMessage) error{
		"TestC12Restart": func(raw json.RawMessage) error {
			var c c12Case
			if err := json.Unmarshal(raw, &c); err != nil {
				return err
			}
			_, err := checkC12(c)
			return err
		},
	})
}
