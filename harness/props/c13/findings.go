// Package c13 holds the check of property C13 (see c13_test.go).  This file documents the findings of the check;
// it contains no code.
//
// # C13 findings
//
// All of these fail TestC13Machine on the unmodified /repo.  Each has a hand-minimised replay file under
// harness/props/c13/repro/ (format of $VERIF_LASTFAIL; run with
//
//	cd /verif/harness && VERIF_REPLAY=$PWD/props/c13/repro/<file> go test -tags "badger filelog verif" \
//	    -modfile /verif/build/repo/verif.mod ./props/c13 -run 'TestReplay$' -v
//
// ), every one of which was replayed and fails with the listed signature; for every signature except the recovered panic
// there is a second file "<name>-negative-coords.json" with the same history at origin block (-1,-1,-1), failing with the
// signature + "/negative-coords" (cases at negative block coordinates carry their own suffix by convention; none of the
// seven defects depends on the sign of the coordinates).  The interpreter steers around a signature when it is listed in
// $VERIF_KNOWN_SIGS (the generator records the avoided shapes in the case's "avoid" list, so a replay executes the same
// requests); with all 15 signatures listed the check passes (seeds 1-4, 11-14: 3600 cases; 32 processes in parallel on 16
// cores: no false alarm) and every mutation tried is still caught (see the end of this file).
//
// Setting common to the reproductions: labelmap "lm" (16^3 blocks, extent 3x2x2 blocks, supervoxel 1 in block column x=0,
// 2 in x=1, 3 in x=2), annotation "an" synced to lm, labelsz "sz" synced to an, roi "r".  File references are into /repo.
//
//  1. C13/POST-elements/panic   (repro/C13-known-tagdrop-panic.json)
//     History: POST elements [{"Pos":[1,1,1],"Kind":"PostSyn","Tags":["Synapse1"]}];
//     POST elements [{"Pos":[1,1,1],"Kind":"PostSyn"}, {"Pos":[5,5,5],"Kind":"PostSyn","Tags":["Synapse1"]}].
//     Answer to the second POST: 500 "Panic detected ... assignment to entry in nil map".
//     Cause: datatype/annotation/annotation.go addTagDelta (:1105).  The first loop creates tagDelta["Synapse1"] with only
//     .add set (:1114-1122); the second loop finds that entry for the tag the re-posted element dropped and writes
//     td.erase[zyx] (:1134) into the nil map.  Only the "not found" branch (:1136) allocates erase.  Well-formed request,
//     both elements in one block: always panics; in different blocks it depends on the map iteration order of addToBlock
//     (StoreElements :2273).  Nothing is stored (the panic precedes the batch).
//     Steering when known ("tagdrop"): in a POST where an element drops a tag that another element of the POST carries, the
//     dropping element keeps the tag.
//
//  2. C13/label/differs-from-model/after-move/same-body   (repro/C13-known-move-same-body.json)
//     History: ingest lm; POST elements [{"Pos":[1,1,1],"Kind":"PostSyn"}]; POST move/1_1_1/5_5_5 (both voxels on body 1).
//     GET label/1 returns the element at [1,1,1]; all-elements, elements, blocks and tags show it at [5,5,5].
//     GET label/1?relationships=true returns [] (getExpandedElements cannot find [1,1,1] in the block and drops it, :1298).
//     Cause: annotation.go moveElementInLabels (:1451): "if oldLabel == newLabel { return nil }" (:1464) skips the update of the
//     label list, which stores full elements incl. Pos.  Every later delete of that element also misses the label list
//     (deleteElementInLabel matches by position, :1365) so the stale entry stays forever and the labelsz count is never decremented.
//     Steering when known ("move-same-body"): a move that would stay on one (non-zero) body is re-targeted onto a voxel of
//     another body in the same destination block.
//
//  3. C13/labelsz-counts/differs-from-model/after-post/overwrite-kind-change   (repro/C13-known-overwrite-kind-change.json)
//     History: ingest lm; POST elements [{"Pos":[1,1,1],"Kind":"PostSyn"}]; POST elements [{"Pos":[1,1,1],"Kind":"PreSyn"}].
//     labelsz: PostSyn of label 1 stays 1 and PreSyn stays 0; every annotation view shows one PreSyn element.
//     Cause: annotation.go storeLabelElements (:1742) only emits a DeltaModifyElements.Add for positions that are new in the
//     label list (:1767-1769); an element replaced at the same position (:1771) produces no Del(old kind)/Add(new kind), so
//     the labelsz (labelsz/sync.go modifyElements :163) never hears of the kind change.  The quantifier names "POST elements
//     ... overwriting an existing position, changing tags and kinds".
//     Steering when known ("overwrite-kind"): a re-posted element on a labelled voxel keeps its kind (kind changes on
//     background voxels, which the labelsz does not count, stay in).
//
//  4. C13/label/differs-from-model/after-mutate/mapped-supervoxels   (repro/C13-known-mutate-mapped-supervoxels.json)
//     History: ingest lm; POST elements [{"Pos":[17,1,1]}] (supervoxel 2 = body 2); POST lm/merge [1,2] (element now on body 1,
//     label/1 lists it: correct); POST lm/raw/0_1_2/16_16_16/16_0_0?mutate=true repainting voxels [20..21,5..6,5..6] (not under
//     the element) with supervoxel 3.  Afterwards GET label/2 lists the element although body 2 no longer exists (it is also
//     still in label/1).  When the edit changes the supervoxel under the element, the element is removed from / added to the
//     lists of the supervoxel ids instead of the bodies and the labelsz is told the same wrong labels.
//     Cause: labelmap publishes the stored SUPERVOXEL blocks in MutatedBlock (datatype/labelmap/write.go:219, Prev/Data are
//     the blocks as stored), annotation/sync.go handleSyncMessage hands them to mutateBlock (:301-305), which treats each
//     uint64 as the body label (:480-494) and files the element under label key <supervoxel id>.  Correct only while every
//     supervoxel maps to itself; after any merge or cleave a voxel edit anywhere in a block misfiles every element of that block
//     that sits on a mapped supervoxel.  ingestBlock (:368, :394) has the same flaw for blocks ingested after a merge (not
//     exercised: the machine ingests once).
//     Steering when known ("mutate-mapped"): a repaint is skipped when an element in the written box sits on a voxel whose old
//     or new supervoxel id differs from its body.
//
//  5. C13/labelsz-counts/differs-from-model/after-blocks+reload/non-synaptic-kinds   (repro/C13-known-labelsz-reload-non-synaptic.json)
//     History: ingest lm; POST elements [{"Pos":[1,1,1],"Kind":"Note"}]; POST blocks {"0,0,0":[that element]}; POST an/reload;
//     POST sz/reload.  labelsz AllSyn of label 1 is 1; counted from the elements it is 0 (and it was 0 before the reload).
//     Cause: datatype/labelsz/labelsz.go resync (:865): allsyn sums indexMap over every index type below AllSyn (:932-940),
//     i.e. including Note and UnknownIndex, while the help text calls AllSyn "the catch-all for synapses" (keys.go:49
//     "PostSyn, PreSyn, or Gap") and the incremental path only counts Kind.IsSynaptic() (labelsz/sync.go:174, :184).
//     Steering when known ("labelsz-notes"): a block ingest + labelsz reload is only issued when no Note/Unknown element sits
//     on a labelled voxel (kinds of the ingested block are changed to PostSyn; the op is skipped if such an element exists elsewhere).
//
//  6. C13/tag/differs-from-model/after-blocks+reload/check and C13/label/differs-from-model/after-blocks+reload/check
//     (repro/C13-known-reload-check-stale-tag.json, repro/C13-known-reload-check-stale-label.json)
//     History: ingest lm; POST elements [{"Pos":[1,1,1],"Kind":"PostSyn","Tags":["Synapse1"]}]; POST blocks {"0,0,0":[]};
//     POST an/reload?check=true.  GET tag/Synapse1 and GET label/1 still return the element that no block holds any more
//     (without tags only the label view fails: second file).
//     Cause: annotation/denormalizations.go resyncInMemory skips deleteDenormalizations when check is set (:97-102) and
//     write_denorms_with_check (:192) only visits the labels and tags that occur in the CURRENT block elements (:239-250);
//     a tag or label that lost its last element is never compared, so its incorrect list survives although the option is
//     documented as "only replacing denormalization when it is incorrect".  (reload without check is correct.)
//     Steering when known ("reload-check"): check=true is not used after a block ingest.
//
//  7. C13/labelsz-counts/differs-from-model/after-reload/lowmem   (repro/C13-known-reload-lowmem-doubles-labelsz.json)
//     History: ingest lm; POST elements [{"Pos":[1,1,1],"Kind":"PostSyn"}]; POST an/reload?inmemory=false (content unchanged).
//     labelsz PostSyn (and AllSyn) of label 1 becomes 2; every further low-memory reload adds the full counts again.
//     Cause: denormalizations.go resyncLowMemory deletes the label lists (:341) and rebuilds them through storeLabels ->
//     storeLabelElements (:425, :447), which announces every element as DeltaModifyElements.Add (annotation.go:1769, :1780-1783)
//     because no label list exists any more; the synced labelsz adds them on top of its counts.  The in-memory reload writes
//     the lists directly and announces nothing.
//     Steering when known ("reload-lowmem"): a reload that is not followed by a labelsz reload uses inmemory=true.
//
// Not a defect: upstream TestMappedLabels (datatype/annotation/annotation_test.go:1846) fails on the unchanged tree only because
// it calls POST <labelmap>/split/2 (:1699), which the default server configuration deactivates ("Split endpoint deactivated in
// this DVID server's configuration", labelmap/handlers.go:1764); everything before that call (label views after ingest, voxel
// edit and merge on mapped labels) passes.  Test-configuration artefact.
//
// Sensitivity (scratch copy of /repo, 4 shards x 15 cases, all 15 signatures listed; every mutation was caught by all 4
// shards unless noted): annotation.go MoveElement without moveElementInTags (C13/tag/.../after-move/...); DeleteElement without
// deleteElementInRelationships (C13/rels/dangling-reference/after-delete/with-partner); MoveElement without
// moveElementInRelationships (C13/rels/dangling-reference/after-move/...); DeleteElement without deleteElementInTags;
// storeLabelElements not replacing an existing entry; modifyTagElements ignoring erase; sync.go mergeLabels without
// batch.Delete of the merged key (C13/label/.../after-merge); cleaveLabels keeping the emptied target key (first 1 of 4
// shards -> cleave op extended with "cleave exactly the supervoxels under elements" -> 4 of 4); mutateBlock ignoring deletions
// (first 2 of 4 -> early repaint added to the generated prefix -> 4 of 4); ingestBlock dropping one element per block;
// dvid.NewExtents3dFromStrings max corner off by one (elements/blocks views); GetROISynapses span end off by one; labelsz
// modifyElements ignoring Del; GetTopElementType returning n-1 entries; elementToIndexType counting Gap as PreSyn.
//
// Follow-up round.  Findings 1, 2, 3 and 5 have been fixed in /repo (their signatures are no longer listed, so the shapes run
// unsteered again: classes tag-drop-and-add-in-one-post, move/same-body, overwrite/kind-change-on-body,
// reload/non-synaptic-kinds); 4, 6 and 7 are listed as known.  A seeded change was missed by the first version of the
// generator: (*Elements).deleteRel cutting only the FIRST relationship that points to the deleted element, which needs a partner
// in another block holding >=2 relationships to it.  The generator now gives a related pair 1-3 relationships of different
// Rel kinds per direction (pelem.RelN), delete/move operands can prefer such elements (aop.Multi), and classes
// rels/multi-relationship-pair[/cross-block|/same-block], rels/multi-partner, delete|move/multi-relationship-pair[/cross-block],
// delete|move/multi-partner are recorded.  With that the seeded deleteRel change is caught by 8 of 8 shards x 40 cases
// (C13/rels/dangling-reference/after-delete/with-partner, VERIF_REPO=<scratch> ./check C13 prints VIOLATION), and the analogous
// change in (*Elements).move (redirect only the first relationship) by 4 of 4 (C13/rels/dangling-reference/after-move/...).
// Unchanged tree: silent at VERIF_SEED=1,2,3 (quick 29-35 s) and on 12 seeds x 150 cases.
package c13
