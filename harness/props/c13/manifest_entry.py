# Proposed TEXT entry for C13 (paste into /verif/manifest_text.py).
ENTRY = {
    "C13": {
        "technique": "property-based testing (rapid), in-process HTTP driver: model-based state machine over four synced instances (labelmap, annotation, labelsz, roi); "
                     "reference model = ONE element set keyed by position (model/annot.go) + the dense label-volume model of C08 (model/labelvol.go); every served view "
                     "(block store, tag index, body index, box queries, ROI query, labelsz counts/rankings) is recomputed from the model after every operation and compared; "
                     "self-consistency oracle on the server's own answer (every relationship target exists, every element listed under its own block, no duplicates)",
        "level_text": "Generated-input exploration with explicit oracles. Each case is a history of up to 25 operations on annotation elements (post, overwrite with changed "
                      "kind/tags/props, tag dropped by one element and added by another in one request, delete, six kinds of move, block-level ingest + reload in all four "
                      "option combinations, reload alone) interleaved with label operations on the synced volume (ingest before or after the first elements, merge, cleave, "
                      "split-supervoxel, voxel repaint under elements) and new versions, at non-negative and negative block coordinates, with positions on block borders and "
                      "outside the label extent. After every operation the server is settled with its own idle predicates and all views of the current version are compared "
                      "with the model; earlier versions are re-read at the end. The space of histories is unbounded: this is search, absence of failures is not a proof. "
                      "Seven defects (15 signatures with their negative-coordinate variants) fail on the unchanged tree and are reported as findings with hand-minimised "
                      "replays; the interpreter steers around each listed one by construction (recorded in the case, so replays execute identically) and the search "
                      "continues behind it. 13 deliberate breakages (tag update on move, partner update on move/delete, merged key not deleted, emptied cleave target kept, "
                      "labelsz ignoring deletions, stale label entry on overwrite, off-by-one box/ROI bounds, tag erase skipped, ranking cut short, mutate deletions skipped, "
                      "ingest dropping an element, kind miscounted) were each caught within the quick budget.",
        "level_note": "<=25 ops, <=12 elements, 4 tags, one block size (16^3), extent 3x2x2 blocks; labelmap body split (POST split) is disabled by the default configuration and not "
                      "exercised; labels are ingested once per history; concurrency is C11's subject; labelsz Voxels index and ROI-restricted labelsz not exercised; "
                      "upstream TestMappedLabels fails only because it calls the deactivated split endpoint (config artefact, not a label-index defect).",
    },
}
