# Proposed CHECKS entry for C13 (paste into /verif/checks_config.py; T(...) is the helper defined there).
# Measured (16-core sandbox): one shard alone 0.47 s per case (100 cases 46 s); 4 shards in parallel 0.53-0.67 s per case per shard
# (4 x 30 cases: 16 s wall, 4 x 40: 27 s); 16 shards in parallel 0.78-0.86 s per case per shard (16 x 40 cases: 31 s wall);
# 32 processes at once (2x oversubscribed) 32 x 25 cases in 31 s, no false alarm.
# quick = 40 x 4 = 160 cases (about 20-27 s + the replay tier: 15 known-finding replays of < 1 s each);
# thorough = 500 x 16 = 8000 cases (about 6.5 min).
# To run by hand (the package must precede the rapid flags):
#   cd /verif/harness && go test -tags "badger filelog verif" -modfile /verif/build/repo/verif.mod ./props/c13 -run 'TestC13Machine$' -rapid.checks 100 -rapid.seed 7 -rapid.nofailfile
# Known findings (7 root causes, 15 signatures incl. the /negative-coords variants) with hand-minimised replay files in
# harness/props/c13/repro/ are described in harness/props/c13/findings.go (4 of them have since been fixed in /repo).
# Follow-up round: pairs with 2-3 relationships per direction and multi-partner elements added (a seeded "deleteRel stops after the
# first matching relationship" was missed before; now caught by 8 of 8 shards of 40 cases within seconds); per-case cost unchanged.
ENTRY = {
    "C13": {
        "pkg": "c13",
        "level": "exploration",
        "tests": [
            T("TestC13Machine", (40, 4), (500, 16)),
        ],
        "required_classes": [
            "label-op/merge", "label-op/cleave", "label-op/splitsv", "label-op/mutate",
            "move/within-block", "move/cross-block", "move/onto-other-body", "move/onto-partner-block", "delete/with-partner",
            "overwrite-position", "overwrite/tag-change", "reload", "reload-only", "labelsz", "roi",
            "negative-coords", "border-position", "outside-label-extent", "ingest-after-elements", "version",
            # relationship shapes (a pair holding 2-3 relationships of different kinds per direction, partners in the same / another block,
            # one element with several partners) and the deletes / moves that must clean up or redirect every one of them
            "rels/multi-relationship-pair", "rels/multi-relationship-pair/cross-block", "rels/multi-relationship-pair/same-block", "rels/multi-partner",
            "delete/multi-relationship-pair", "delete/multi-relationship-pair/cross-block", "delete/multi-partner",
            "move/multi-relationship-pair", "move/multi-relationship-pair/cross-block", "move/multi-partner",
            # shapes of the four defects fixed in /repo, exercised unsteered again
            "tag-drop-and-add-in-one-post", "move/same-body", "overwrite/kind-change-on-body", "reload/non-synaptic-kinds",
        ],
        "rule": "rapid-generated model-based histories (<=25 ops, <=12 elements) on a labelmap L (16^3 blocks, 3x2x2 block extent at origins incl. negative block "
                "coordinates, canvas painted from palette supervoxels up to 2^40), an annotation instance A synced to L, a labelsz Z synced to A and an ROI R with A's "
                "block size: POST elements (new positions in and one block around the label extent, biased to block borders; re-post of an existing element with "
                "changed kind/tags/props keeping its relationships; mutual relationships between elements of one POST, a pair holding 1-3 relationships of different "
                "Rel kinds per direction, partners in the same or in another block, one element possibly related to several partners; one POST in which an element drops a tag that "
                "another element of the same block carries), DELETE element, POST move (within the block, to another block, onto another body, into a partner's block, "
                "a few voxels away, outside the label extent; onto unoccupied voxels), POST blocks (one block: kept/changed/dropped partner-less elements + new ones) "
                "followed by POST reload (inmemory true/false, check true/false) and a labelsz reload, POST reload alone, on L: ingest (POST raw / POST blocks, before or "
                "after the first elements), merge, cleave (incl. 'every supervoxel that carries an element'), split-supervoxel, raw?mutate=true repaints centred on "
                "elements; commit+newversion.  After every applied op (settled; compared inside WithDeepRetry) the current version is compared with model.AnnSet + "
                "model.LabelState: all-elements (partition by block, no duplicates), relationship targets exist, relationships equal the model, elements/<size>/<offset> "
                "and blocks/<size>/<offset> for 5 boxes (whole space, one voxel, box just excluding an element, element as inclusive max corner, box spanned by two "
                "elements), tag/<t> for every tag of the universe + an unused one (with and without relationships), label/<l> for every body, every merged-away / "
                "cleaved / palette label and an unused one (with and without relationships; L's own labels for the element positions must agree with the volume model), "
                "roi/<R> in both spellings, labelsz counts/<type> for all those labels, count/<label>/<type>, top/2 and top/50, threshold/1 and threshold/2 for "
                "PostSyn, PreSyn, Gap, Note, AllSyn.  Final sweep: every earlier version again.  Non-trivial: >=1 label op (merge/cleave/split-supervoxel/mutate) "
                "touching a body that carried >=2 elements, and >=1 move or delete of an element that has a partner.  Distinct = hash of the case value.",
        "assumptions": [
            "relationships are generated as mutual pairs and a re-posted element keeps its relationships (the statement's 'when two elements reference each other'); "
            "one-directional references are not asserted",
            "a POST at an occupied position replaces the whole element (Elements.add); moves only target unoccupied voxels; POST blocks never drops an element that has a partner "
            "and never reuses a dropped element's position in the same ingest (the caller partitions properly)",
            "after POST blocks + POST reload the labelsz is reloaded too (help: block ingest does not notify synced data); POST reload alone is expected to leave every view, incl. the labelsz, unchanged",
            "reload completion is observed through the documented behaviour 'POST requests return errors while denormalization is ongoing' (empty POST elements polled), "
            "labelsz reload completion through its 400 'stats not available'; a mismatch is only believed after drive.DeepSettle and a second evaluation",
            "all-elements/blocks may list blocks with an empty array (text silent); labelsz rankings are compared up to the order among equal counts and ignoring zero-count entries",
            "the labelmap body-split endpoint (POST split) is deactivated by the default server configuration and is not exercised; 'splits' are split-supervoxel; "
            "labels are only ingested once per history (no ingest after merges)",
            "split volumes are proper non-empty subsets of the supervoxel, cleaves never take every supervoxel, repaints only use palette ids and never re-introduce a split supervoxel id",
        ],
    },
}
