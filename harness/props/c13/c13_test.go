// C13 — annotation indexes (per-block store, per-tag index, per-body index, spatial queries, labelsz counts) are
// views of one element set and stay synced with the label volume.
package c13

import (
	"encoding/json"
	"fmt"
	"os"
	"sort"
	"strings"
	"testing"
	"time"

	"pgregory.net/rapid"

	"verif/drive"
	"verif/lmdrive"
	"verif/model"
	"verif/stats"
)

func TestMain(m *testing.M) {
	drive.Open()
	rc := m.Run()
	drive.Close()
	stats.Flush()
	os.Exit(rc)
}

// ------------------------------------------------------------------ case

const blockEdge = 16
const maxElems = 12
const maxNewVersions = 2

var nb = [3]int32{3, 2, 2}

var kinds = []string{"PostSyn", "PreSyn", "Gap", "Note", "Unknown"}
var relTypes = []string{"PostSynTo", "PreSynTo", "ConvergentTo", "GroupedWith", "UnknownRelationship"}
var idxTypes = []string{"PostSyn", "PreSyn", "Gap", "Note", "AllSyn"}

type box struct {
	Off  [3]int32 `json:"off"`  // relative to the extent origin, voxels
	Size [3]int32 `json:"size"` // voxels
	SV   int      `json:"sv"`   // palette index
}

// ppos describes a position operand; it is resolved against the state at execution time.
type ppos struct {
	Near  int      `json:"near"`  // >=0: the (Near mod n)-th existing element's position plus Delta (when elements exist)
	Delta [3]int32 `json:"delta"` // offset for Near
	Blk   [3]int32 `json:"blk"`   // else: block relative to the extent origin (-1 and nb[a] are outside the label extent)
	In    [3]int32 `json:"in"`    // voxel inside that block
}

type pelem struct {
	Old  int  `json:"old"` // >=0: re-post the (Old mod n)-th existing element (overwrite at its position); -1: position At
	At   ppos `json:"at"`
	Kind int  `json:"kind"`
	Tags int  `json:"tags"` // bit mask over the case's tag universe
	Prop int  `json:"prop"`
	Rel  int  `json:"rel"`            // -1 none, else index of another element of the same POST to form a mutual pair with
	RelT int  `json:"relt"`           // relationship type of this side; the other side gets RelT+1
	RelN int  `json:"reln,omitempty"` // 0/1: one relationship per direction; 2-3: that many of different Rel kinds per direction
}

type aop struct {
	Kind      string  `json:"kind"` // ingest post dropadd delete move blocks merge cleave splitsv mutate newversion
	Elems     []pelem `json:"elems,omitempty"`
	E         int     `json:"e,omitempty"`         // element operand
	Partnered bool    `json:"partnered,omitempty"` // prefer an element that has a partner
	Multi     bool    `json:"multi,omitempty"`     // prefer an element some partner holds >=2 relationships to
	Dest      int     `json:"dest,omitempty"`      // move destination mode
	At        ppos    `json:"at"`
	A         int     `json:"a,omitempty"`
	B         int     `json:"b,omitempty"`
	N         int     `json:"n,omitempty"`
	Shape     int     `json:"shape,omitempty"`
	Paint     []box   `json:"paint,omitempty"`
	LowMem    bool    `json:"lowmem,omitempty"` // reload with inmemory=false
	Check     bool    `json:"check,omitempty"`  // reload with check=true
	Via       int     `json:"via,omitempty"`    // ingest path: 0 POST raw, 1 POST blocks
}

type c13Case struct {
	Origin  [3]int32   `json:"origin"`
	Palette []uint64   `json:"palette"`
	Canvas  []box      `json:"canvas"`
	Tags    []string   `json:"tags"`
	ROI     [][4]int32 `json:"roi"` // spans z,y,x0,x1 in block coordinates relative to the extent origin
	Ops     []aop      `json:"ops"`
	// Avoid lists the known-finding shapes the interpreter steers around.  It is part of the case (set by the generator
	// from $VERIF_KNOWN_SIGS) so that a replay executes exactly the same requests.
	Avoid []string `json:"avoid,omitempty"`
}

func (c c13Case) geom() model.LabelGeom {
	return model.LabelGeom{B: blockEdge, OB: c.Origin, NB: nb}
}

func paint(g model.LabelGeom, arr []uint64, boxes []box, pal []uint64) {
	s := g.Size()
	for _, b := range boxes {
		for z := b.Off[2]; z < b.Off[2]+b.Size[2] && z < s[2]; z++ {
			for y := b.Off[1]; y < b.Off[1]+b.Size[1] && y < s[1]; y++ {
				for x := b.Off[0]; x < b.Off[0]+b.Size[0] && x < s[0]; x++ {
					if x < 0 || y < 0 || z < 0 {
						continue
					}
					arr[int(z)*int(s[1])*int(s[0])+int(y)*int(s[0])+int(x)] = pal[b.SV%len(pal)]
				}
			}
		}
	}
}

// ------------------------------------------------------------------ steering (known findings)

// Shapes that trigger findings recorded in findings.go.  When the signature is listed in $VERIF_KNOWN_SIGS the generator
// puts the shape name into c.Avoid and the interpreter alters the op by construction (stats.Excluded counts it).
var steerable = map[string][]string{
	// shape name -> signatures of the finding(s) the shape triggers
	"tagdrop":         {"C13/POST-elements/panic"},
	"move-same-body":  {"C13/label/differs-from-model/after-move/same-body"},
	"overwrite-kind":  {"C13/labelsz-counts/differs-from-model/after-post/overwrite-kind-change"},
	"mutate-mapped":   {"C13/label/differs-from-model/after-mutate/mapped-supervoxels"},
	"reload-check":    {"C13/tag/differs-from-model/after-blocks+reload/check", "C13/label/differs-from-model/after-blocks+reload/check"},
	"labelsz-notes":   {"C13/labelsz-counts/differs-from-model/after-blocks+reload/non-synaptic-kinds"},
	"negative-coords": {"C13/negative-coords"},
	"reload-lowmem":   {"C13/labelsz-counts/differs-from-model/after-reload/lowmem"},
}

// knownSig returns the listed signature of a shape ("" when none is listed).  Cases at negative block coordinates carry
// their own signature suffix (recovered-panic signatures are fixed by convention and carry none).
func knownSig(shape string, neg bool) string {
	for _, s := range steerable[shape] {
		if neg && !strings.HasSuffix(s, "/panic") && shape != "negative-coords" {
			s += "/negative-coords"
		}
		if stats.IsKnown(s) {
			return s
		}
	}
	return ""
}

// ------------------------------------------------------------------ machine

type vnode struct {
	uuid     string
	locked   bool
	st       *model.LabelState
	es       *model.AnnSet
	ingested bool
}

type machine struct {
	c         c13Case
	g         model.LabelGeom
	lm        lmdrive.LM
	root      string
	nodes     []*vnode
	canvas    []uint64
	cls       map[string]bool
	avoid     map[string]string // shape -> listed signature
	neg       bool
	roiSet    map[[3]int32]bool
	pending   bool  // an annotation reload was requested and may still run
	pendingSz bool  // a labelsz reload was requested and may still run
	pollPanic error // a recovered panic seen while polling
	// qual qualifies the op tag per group of views ("denorm": tag and label views, "labelsz"): a reload option only names
	// the views it can influence, so that one root cause has one signature
	qual map[string]string
	// non-trivial rule
	ntLabelOp, ntPartner bool
	applied              map[string]int
}

func (m *machine) an(n *vnode, rest string) string { return "node/" + n.uuid + "/an/" + rest }
func (m *machine) sz(n *vnode, rest string) string { return "node/" + n.uuid + "/sz/" + rest }

func (m *machine) negSuffix() string {
	if m.neg {
		return "/negative-coords"
	}
	return ""
}

func (m *machine) steer(shape string) bool {
	if sig, ok := m.avoid[shape]; ok {
		stats.Excluded(sig)
		return true
	}
	return false
}

func postJSON(url string, v interface{}) drive.Resp {
	b, _ := json.Marshal(v)
	return drive.Post(url, b)
}

func newMachine(c c13Case) (*machine, error) {
	g := c.geom()
	root, err := drive.NewRepo()
	if err != nil {
		return nil, err
	}
	bs := fmt.Sprintf("%d,%d,%d", blockEdge, blockEdge, blockEdge)
	if err := drive.NewInstance(root, "labelmap", "lm", map[string]string{"BlockSize": bs}); err != nil {
		return nil, err
	}
	if err := drive.NewInstance(root, "annotation", "an", nil); err != nil {
		return nil, err
	}
	if r := drive.Post("node/"+root+"/an/sync", []byte(`{"sync":"lm"}`)); !r.OK() {
		return nil, fmt.Errorf("sync an->lm: %s", r)
	}
	if err := drive.NewInstance(root, "roi", "r", map[string]string{"BlockSize": bs}); err != nil {
		return nil, err
	}
	m := &machine{c: c, g: g, lm: lmdrive.LM{Name: "lm", G: g}, root: root, cls: map[string]bool{}, avoid: map[string]string{},
		roiSet: map[[3]int32]bool{}, applied: map[string]int{}}
	m.neg = c.Origin[0] < 0 || c.Origin[1] < 0 || c.Origin[2] < 0
	for _, a := range c.Avoid {
		sig := steerable[a][0]
		if m.neg && !strings.HasSuffix(sig, "/panic") {
			sig += "/negative-coords"
		}
		m.avoid[a] = sig
	}
	var spans [][4]int32
	for _, s := range c.ROI {
		z, y, x0, x1 := s[0]+c.Origin[2], s[1]+c.Origin[1], s[2]+c.Origin[0], s[3]+c.Origin[0]
		spans = append(spans, [4]int32{z, y, x0, x1})
		for x := x0; x <= x1; x++ {
			m.roiSet[[3]int32{x, y, z}] = true
		}
	}
	if len(spans) > 0 {
		if r := postJSON("node/"+root+"/r/roi", spans); !r.OK() {
			return nil, fmt.Errorf("post roi: %s", r)
		}
	}
	if err := drive.NewInstance(root, "labelsz", "sz", nil); err != nil {
		return nil, err
	}
	if r := drive.Post("node/"+root+"/sz/sync", []byte(`{"sync":"an"}`)); !r.OK() {
		return nil, fmt.Errorf("sync sz->an: %s", r)
	}
	m.nodes = []*vnode{{uuid: root, st: model.NewLabelState(g), es: model.NewAnnSet()}}
	m.canvas = make([]uint64, g.NVox())
	paint(g, m.canvas, c.Canvas, c.Palette)
	return m, nil
}

func (m *machine) cur() *vnode { return m.nodes[len(m.nodes)-1] }

// bodyAt is the reference answer to "which body owns voxel p" at node n.
func (m *machine) bodyAt(n *vnode, p [3]int32) uint64 {
	i, ok := m.g.Idx(p[0], p[1], p[2])
	if !ok {
		return 0
	}
	return n.st.Body(n.st.SV[i])
}

func (m *machine) svAt(n *vnode, p [3]int32) uint64 {
	i, ok := m.g.Idx(p[0], p[1], p[2])
	if !ok {
		return 0
	}
	return n.st.SV[i]
}

func mod(a, n int) int {
	if n <= 0 {
		return 0
	}
	a %= n
	if a < 0 {
		a += n
	}
	return a
}

func (m *machine) resolve(n *vnode, p ppos) [3]int32 {
	ps := n.es.Positions()
	if p.Near >= 0 && len(ps) > 0 {
		q := ps[mod(p.Near, len(ps))]
		return [3]int32{q[0] + p.Delta[0], q[1] + p.Delta[1], q[2] + p.Delta[2]}
	}
	var out [3]int32
	for a := 0; a < 3; a++ {
		out[a] = (m.g.OB[a]+p.Blk[a])*m.g.B + int32(mod(int(p.In[a]), blockEdge))
	}
	return out
}

// free returns p or, when p is occupied (or excluded), the next unoccupied voxel along x inside p's block.
func (m *machine) free(n *vnode, p [3]int32, excl map[[3]int32]bool) [3]int32 {
	blk := model.BlockOfPos(p, blockEdge)
	for k := 0; k < blockEdge*blockEdge; k++ {
		q := p
		dx := int32(k % blockEdge)
		dy := int32(k / blockEdge)
		q[0] = blk[0]*blockEdge + (p[0]-blk[0]*blockEdge+dx)%blockEdge
		q[1] = blk[1]*blockEdge + (p[1]-blk[1]*blockEdge+dy)%blockEdge
		if _, occ := n.es.E[q]; !occ && !excl[q] {
			return q
		}
	}
	return p
}

// pick chooses an element operand; with partnered it prefers elements that have relationships.
func (m *machine) pick(n *vnode, e int, partnered bool, multi ...bool) ([3]int32, bool) {
	ps := n.es.Positions()
	if len(ps) == 0 {
		return [3]int32{}, false
	}
	if len(multi) > 0 && multi[0] {
		var wm [][3]int32
		for _, p := range ps {
			if mu, _, _ := partnerShape(n.es, p); mu {
				wm = append(wm, p)
			}
		}
		if len(wm) > 0 {
			return wm[mod(e, len(wm))], true
		}
	}
	if partnered {
		var wp [][3]int32
		for _, p := range ps {
			if len(n.es.E[p].Rels) > 0 {
				wp = append(wp, p)
			}
		}
		if len(wp) > 0 {
			return wp[mod(e, len(wp))], true
		}
	}
	return ps[mod(e, len(ps))], true
}

func p3(a [3]int32) string { return fmt.Sprintf("%d_%d_%d", a[0], a[1], a[2]) }

func (m *machine) tagsOf(mask int) []string {
	var out []string
	for i, t := range m.c.Tags {
		if mask&(1<<uint(i)) != 0 {
			out = append(out, t)
		}
	}
	return out
}

func propsOf(k int) map[string]string {
	switch mod(k, 5) {
	case 1:
		return map[string]string{"conf": "0.9"}
	case 2:
		return map[string]string{"user": "tester", "Another Var": "A More Complex Value"}
	case 3:
		return map[string]string{"conf": fmt.Sprintf("0.%d", mod(k, 97))}
	case 4:
		return map[string]string{"note": "änd \"quoted\" <b>"}
	}
	return nil
}

func related(a, b model.AnnElem) bool {
	for _, r := range a.Rels {
		if r.To == b.Pos {
			return true
		}
	}
	return false
}

// link makes a and b reference each other with k (1..3) relationships of different kinds per direction.
func link(a, b *model.AnnElem, relT, k int) {
	if k < 1 {
		k = 1
	}
	if k > 3 {
		k = 3
	}
	for j := 0; j < k; j++ {
		a.Rels = append(a.Rels, model.AnnRel{Rel: relTypes[mod(relT+j, len(relTypes))], To: b.Pos})
		b.Rels = append(b.Rels, model.AnnRel{Rel: relTypes[mod(relT+1+j, len(relTypes))], To: a.Pos})
	}
}

// relsTo counts the relationships of e that point to p.
func relsTo(e model.AnnElem, p [3]int32) int {
	c := 0
	for _, r := range e.Rels {
		if r.To == p {
			c++
		}
	}
	return c
}

// partnerShape describes how the partners of the element at p refer to it: multi = some partner holds >=2 relationships
// to p; multiCross = such a partner lives in another block; partners = number of distinct partners.
func partnerShape(es *model.AnnSet, p [3]int32) (multi, multiCross bool, partners int) {
	seen := map[[3]int32]bool{}
	for _, r := range es.E[p].Rels {
		if seen[r.To] {
			continue
		}
		seen[r.To] = true
		partners++
		if q, ok := es.E[r.To]; ok && relsTo(q, p) >= 2 {
			multi = true
			if model.BlockOfPos(r.To, blockEdge) != model.BlockOfPos(p, blockEdge) {
				multiCross = true
			}
		}
	}
	return
}

// elementsOnBody counts model elements per body at node n.
func (m *machine) elementsOnBody(n *vnode) map[uint64]int {
	out := map[uint64]int{}
	for p := range n.es.E {
		if b := m.bodyAt(n, p); b != 0 {
			out[b]++
		}
	}
	return out
}

// bodiesByElems lists the bodies of the model volume, those carrying most elements first.
func (m *machine) bodiesByElems(n *vnode) []uint64 {
	cnt := m.elementsOnBody(n)
	var out []uint64
	for b := range n.st.Bodies() {
		out = append(out, b)
	}
	sort.Slice(out, func(i, j int) bool {
		if cnt[out[i]] != cnt[out[j]] {
			return cnt[out[i]] > cnt[out[j]]
		}
		return out[i] < out[j]
	})
	return out
}

func (m *machine) bad(r drive.Resp, endpoint, what string) error {
	if r.IsPanic() {
		return stats.Violf("C13/"+endpoint+"/panic", "%s: %s", what, r)
	}
	return nil
}

// buildPost turns the element operands of a POST elements op into the element list (see DESIGN §5 C13 domain decisions).
func (m *machine) buildPost(n *vnode, o aop) (list []model.AnnElem, tag string) {
	ps := n.es.Positions()
	seen := map[[3]int32]bool{}
	idx := make([]int, len(o.Elems)) // operand -> index in list, -1 when skipped
	nNew := 0
	overwrite, kindChange, tagChange := false, false, false
	for i, pe := range o.Elems {
		idx[i] = -1
		var e model.AnnElem
		isOld := false
		if pe.Old >= 0 && len(ps) > 0 {
			e = n.es.E[ps[mod(pe.Old, len(ps))]].Copy()
			isOld = true
		} else {
			e.Pos = m.resolve(n, pe.At)
			if old, ok := n.es.E[e.Pos]; ok {
				e = old.Copy() // a post at an occupied position: the client re-posts that element, keeping its relationships
				isOld = true
			}
		}
		if seen[e.Pos] {
			continue
		}
		if !isOld && len(n.es.E)+nNew >= maxElems {
			continue
		}
		newKind := kinds[mod(pe.Kind, len(kinds))]
		if isOld {
			overwrite = true
			if newKind != e.Kind && m.bodyAt(n, e.Pos) != 0 && m.steer("overwrite-kind") {
				newKind = e.Kind
			}
			if newKind != e.Kind {
				kindChange = true
				if m.bodyAt(n, e.Pos) != 0 {
					m.cls["overwrite/kind-change-on-body"] = true
				}
			}
		} else {
			nNew++
		}
		e.Kind = newKind
		newTags := m.tagsOf(pe.Tags)
		if isOld && strings.Join(newTags, ",") != strings.Join(e.Tags, ",") {
			tagChange = true
		}
		e.Tags = newTags
		e.Prop = propsOf(pe.Prop)
		seen[e.Pos] = true
		idx[i] = len(list)
		list = append(list, e)
	}
	for i, pe := range o.Elems {
		if idx[i] < 0 || pe.Rel < 0 || len(list) < 2 {
			continue
		}
		a, b := idx[i], mod(pe.Rel, len(list))
		if a == b || related(list[a], list[b]) || related(list[b], list[a]) {
			continue
		}
		link(&list[a], &list[b], pe.RelT, pe.RelN)
	}
	m.fixTagDrop(n, list)
	tag = "post/new"
	if overwrite {
		tag = "post/overwrite"
		m.cls["overwrite-position"] = true
		if tagChange {
			m.cls["overwrite/tag-change"] = true
		}
		if kindChange {
			tag = "post/overwrite-kind-change"
			m.cls["overwrite/kind-change"] = true
		}
	}
	return list, tag
}

// tagDropAdd reports whether the POST carries an element that drops a tag another element of the same POST carries
// (sameBlock: both in one block).
func (m *machine) tagDropAdd(n *vnode, list []model.AnnElem) (any, sameBlock bool) {
	for i, e := range list {
		old, ok := n.es.E[e.Pos]
		if !ok {
			continue
		}
		for _, t := range old.Tags {
			if e.HasTag(t) {
				continue
			}
			for j, f := range list {
				if j != i && f.HasTag(t) {
					any = true
					if model.BlockOfPos(e.Pos, blockEdge) == model.BlockOfPos(f.Pos, blockEdge) {
						sameBlock = true
					}
				}
			}
		}
	}
	return
}

// fixTagDrop steers around the known POST-elements panic: the dropping element keeps the tag.
func (m *machine) fixTagDrop(n *vnode, list []model.AnnElem) {
	any, _ := m.tagDropAdd(n, list)
	if !any || !m.steer("tagdrop") {
		return
	}
	for i, e := range list {
		old, ok := n.es.E[e.Pos]
		if !ok {
			continue
		}
		for _, t := range old.Tags {
			if e.HasTag(t) {
				continue
			}
			for j, f := range list {
				if j != i && f.HasTag(t) {
					list[i].Tags = append(list[i].Tags, t)
					break
				}
			}
		}
	}
}

func (m *machine) doPost(n *vnode, list []model.AnnElem, what string) error {
	if _, same := m.tagDropAdd(n, list); same {
		m.cls["tag-drop-and-add-in-one-post"] = true
	}
	r := postJSON(m.an(n, "elements"), list)
	if err := m.bad(r, "POST-elements", what); err != nil {
		return err
	}
	if !r.OK() {
		return stats.Violf("C13/POST-elements/refused"+m.negSuffix(), "%s: %d elements %s: %s", what, len(list), brief(list), r)
	}
	for _, e := range list {
		n.es.Put(e)
	}
	return nil
}

func brief(list []model.AnnElem) string {
	b, _ := json.Marshal(list)
	if len(b) > 700 {
		b = append(b[:700], "..."...)
	}
	return string(b)
}

// waitReload polls until the annotation instance accepts POST requests again ("this instance will return errors for any
// POST request while denormalization is ongoing"), then lets the labelsz settle.
func (m *machine) waitReload(n *vnode) {
	time.Sleep(2 * time.Millisecond) // the reload goroutine is started by the handler; let it raise its flag
	ok := 0
	deadline := time.Now().Add(60 * time.Second)
	for ok < 3 && time.Now().Before(deadline) {
		r := drive.Post(m.an(n, "elements?kafkalog=off"), []byte("[]"))
		if r.IsPanic() && m.pollPanic == nil {
			m.pollPanic = stats.Violf("C13/POST-elements/panic", "empty POST elements while waiting for reload: %s", r)
		}
		if r.OK() {
			ok++
		} else {
			ok = 0
		}
		time.Sleep(500 * time.Microsecond)
	}
	drive.Settle(m.root)
}

// waitLabelsz waits for a labelsz reload: the instance answers 400 "stats not available" while rebuilding.
func (m *machine) waitLabelsz(n *vnode) {
	time.Sleep(2 * time.Millisecond)
	ok := 0
	deadline := time.Now().Add(60 * time.Second)
	for ok < 3 && time.Now().Before(deadline) {
		r := drive.Get(m.sz(n, "count/1/PostSyn"))
		if r.IsPanic() && m.pollPanic == nil {
			m.pollPanic = stats.Violf("C13/labelsz-count/panic", "while waiting for the labelsz reload: %s", r)
		}
		if r.OK() {
			ok++
		} else {
			ok = 0
		}
		time.Sleep(500 * time.Microsecond)
	}
	drive.Settle(m.root)
}

// apply executes one op against the server and the model.  It returns the op tag used in signatures ("" when the op was
// not applicable and nothing was sent) and a violation or nil.
func (m *machine) apply(i int, o aop) (tag string, err error) {
	n := m.cur()
	what := fmt.Sprintf("op %d %s at node %d", i, o.Kind, len(m.nodes)-1)
	m.qual = map[string]string{}
	switch o.Kind {
	case "newversion":
		if len(m.nodes) > maxNewVersions {
			return "", nil
		}
		if err := drive.Commit(n.uuid); err != nil {
			return "", stats.Violf("C13/commit/refused", "%s: %v", what, err)
		}
		n.locked = true
		child, err := drive.NewVersion(n.uuid)
		if err != nil {
			return "", stats.Violf("C13/newversion/refused", "%s: %v", what, err)
		}
		m.nodes = append(m.nodes, &vnode{uuid: child, st: n.st.Clone(), es: n.es.Clone(), ingested: n.ingested})
		m.cls["version"] = true
		m.applied["newversion"]++
		return "newversion", nil

	case "ingest":
		if n.ingested {
			return "", nil
		}
		off, size := m.g.Offset(), m.g.Size()
		// labels already merged/cleaved cannot exist before the first ingest, so supervoxel == body here
		var r drive.Resp
		if o.Via == 1 {
			var coords [][3]int32
			var data [][]uint64
			for z := int32(0); z < nb[2]; z++ {
				for y := int32(0); y < nb[1]; y++ {
					for x := int32(0); x < nb[0]; x++ {
						bc := [3]int32{m.g.OB[0] + x, m.g.OB[1] + y, m.g.OB[2] + z}
						coords = append(coords, bc)
						data = append(data, m.extract(m.canvas, [3]int32{bc[0] * blockEdge, bc[1] * blockEdge, bc[2] * blockEdge}, [3]int32{blockEdge, blockEdge, blockEdge}))
					}
				}
			}
			var e error
			r, e = m.lm.PostBlocks(n.uuid, coords, data, "")
			if e != nil {
				return "", nil
			}
		} else {
			r = m.lm.PostRaw(n.uuid, off, size, m.canvas, false)
		}
		if err := m.bad(r, "labelmap-ingest", what); err != nil {
			return "", err
		}
		if !r.OK() {
			return "", stats.Violf("C13/labelmap-ingest/refused"+m.negSuffix(), "%s: %s", what, r)
		}
		if len(n.es.E) > 0 {
			m.cls["ingest-after-elements"] = true
		}
		n.st.Write(off, size, m.canvas)
		n.ingested = true
		m.applied["ingest"]++
		return "ingest", nil

	case "post":
		list, tag := m.buildPost(n, o)
		if len(list) == 0 {
			return "", nil
		}
		if err := m.doPost(n, list, what); err != nil {
			return tag, err
		}
		m.applied["post"]++
		return tag, nil

	case "dropadd":
		// one POST, one block: an existing element drops tag t while a new element carries t
		var tagged [][3]int32
		for _, p := range n.es.Positions() {
			if len(n.es.E[p].Tags) > 0 {
				tagged = append(tagged, p)
			}
		}
		if len(tagged) == 0 || len(n.es.E) >= maxElems {
			return "", nil
		}
		x := n.es.E[tagged[mod(o.E, len(tagged))]].Copy()
		t := x.Tags[mod(o.N, len(x.Tags))]
		var keep []string
		for _, u := range x.Tags {
			if u != t {
				keep = append(keep, u)
			}
		}
		x.Tags = keep
		blk := model.BlockOfPos(x.Pos, blockEdge)
		yp := [3]int32{blk[0]*blockEdge + int32(mod(int(o.At.In[0]), blockEdge)), blk[1]*blockEdge + int32(mod(int(o.At.In[1]), blockEdge)), blk[2]*blockEdge + int32(mod(int(o.At.In[2]), blockEdge))}
		yp = m.free(n, yp, nil)
		if _, occ := n.es.E[yp]; occ {
			return "", nil
		}
		y := model.AnnElem{Pos: yp, Kind: kinds[mod(o.A, len(kinds))], Tags: []string{t}}
		list := []model.AnnElem{x, y}
		m.fixTagDrop(n, list)
		m.cls["overwrite-position"] = true
		if err := m.doPost(n, list, what); err != nil {
			return "post/drop-and-add-tag", err
		}
		m.applied["post"]++
		return "post/drop-and-add-tag", nil

	case "delete":
		p, ok := m.pick(n, o.E, o.Partnered, o.Multi)
		if !ok {
			return "", nil
		}
		tag = "delete"
		if len(n.es.E[p].Rels) > 0 {
			tag = "delete/with-partner"
		}
		delMulti, delMultiCross, delPartners := partnerShape(n.es, p)
		r := drive.Delete(m.an(n, "element/"+p3(p)))
		if err := m.bad(r, "DELETE-element", what); err != nil {
			return tag, err
		}
		if !r.OK() {
			return tag, stats.Violf("C13/DELETE-element/refused"+m.negSuffix(), "%s: existing element %v: %s", what, p, r)
		}
		if len(n.es.E[p].Rels) > 0 {
			m.cls["delete/with-partner"] = true
			m.ntPartner = true
		}
		if delMulti {
			m.cls["delete/multi-relationship-pair"] = true
		}
		if delMultiCross {
			m.cls["delete/multi-relationship-pair/cross-block"] = true
		}
		if delPartners >= 2 {
			m.cls["delete/multi-partner"] = true
		}
		n.es.Delete(p)
		m.applied["delete"]++
		return tag, nil

	case "move":
		from, ok := m.pick(n, o.E, o.Partnered, o.Multi)
		if !ok {
			return "", nil
		}
		e := n.es.E[from]
		mvMulti, mvMultiCross, mvPartners := partnerShape(n.es, from)
		fromBlk := model.BlockOfPos(from, blockEdge)
		fromBody := m.bodyAt(n, from)
		in := [3]int32{int32(mod(int(o.At.In[0]), blockEdge)), int32(mod(int(o.At.In[1]), blockEdge)), int32(mod(int(o.At.In[2]), blockEdge))}
		inBlock := func(b [3]int32) [3]int32 {
			return [3]int32{b[0]*blockEdge + in[0], b[1]*blockEdge + in[1], b[2]*blockEdge + in[2]}
		}
		var to [3]int32
		dest := mod(o.Dest, 6)
		if dest == 3 && len(e.Rels) == 0 {
			dest = 1
		}
		switch dest {
		case 0: // within the block
			to = inBlock(fromBlk)
		case 1: // any block
			to = m.resolve(n, ppos{Near: -1, Blk: o.At.Blk, In: o.At.In})
		case 2: // a voxel of another body
			to = from
			var cands []int
			for i, sv := range n.st.SV {
				if b := n.st.Body(sv); b != 0 && b != fromBody {
					cands = append(cands, i)
				}
			}
			if len(cands) > 0 {
				x, y, z := m.g.Coord(cands[mod(o.B, len(cands))])
				to = [3]int32{x, y, z}
			} else {
				to = inBlock(fromBlk)
			}
		case 3: // into the block of a partner
			pp := e.Rels[mod(o.A, len(e.Rels))].To
			to = inBlock(model.BlockOfPos(pp, blockEdge))
		case 4: // a few voxels away
			to = [3]int32{from[0] + o.At.Delta[0], from[1] + o.At.Delta[1], from[2] + o.At.Delta[2]}
		case 5: // outside the label extent
			to = m.resolve(n, ppos{Near: -1, Blk: [3]int32{-1, o.At.Blk[1], o.At.Blk[2]}, In: o.At.In})
		}
		to = m.free(n, to, map[[3]int32]bool{from: true})
		if _, occ := n.es.E[to]; occ || to == from {
			return "", nil
		}
		toBody := m.bodyAt(n, to)
		if fromBody == toBody && fromBody != 0 && m.steer("move-same-body") {
			// known finding: a move that stays on the body.  Re-target the move into the same destination block but onto another body.
			found := false
			tb := model.BlockOfPos(to, blockEdge)
			for k := 0; k < blockEdge*blockEdge*blockEdge && !found; k++ {
				q := [3]int32{tb[0]*blockEdge + int32(k%blockEdge), tb[1]*blockEdge + int32((k/blockEdge)%blockEdge), tb[2]*blockEdge + int32(k/(blockEdge*blockEdge))}
				if _, occ := n.es.E[q]; !occ && m.bodyAt(n, q) != fromBody {
					to, found = q, true
				}
			}
			if !found {
				return "", nil
			}
			toBody = m.bodyAt(n, to)
		}
		toBlk := model.BlockOfPos(to, blockEdge)
		tag = "move/other-body"
		switch {
		case fromBody == toBody && fromBody != 0:
			tag = "move/same-body"
		case fromBody == toBody:
			tag = "move/background"
		case toBody == 0:
			tag = "move/to-background"
		case fromBody == 0:
			tag = "move/from-background"
		}
		r := drive.Post(m.an(n, "move/"+p3(from)+"/"+p3(to)), nil)
		if err := m.bad(r, "POST-move", what); err != nil {
			return tag, err
		}
		if !r.OK() {
			return tag, stats.Violf("C13/POST-move/refused"+m.negSuffix(), "%s: %v -> %v: %s", what, from, to, r)
		}
		if toBlk == fromBlk {
			m.cls["move/within-block"] = true
		} else {
			m.cls["move/cross-block"] = true
		}
		if toBody != fromBody && toBody != 0 && fromBody != 0 {
			m.cls["move/onto-other-body"] = true
		}
		if tag == "move/same-body" {
			m.cls["move/same-body"] = true
		}
		if mvMulti {
			m.cls["move/multi-relationship-pair"] = true
		}
		if mvMultiCross {
			m.cls["move/multi-relationship-pair/cross-block"] = true
		}
		if mvPartners >= 2 {
			m.cls["move/multi-partner"] = true
		}
		if len(e.Rels) > 0 {
			m.cls["move/with-partner"] = true
			m.ntPartner = true
			for _, r := range e.Rels {
				if model.BlockOfPos(r.To, blockEdge) == toBlk && toBlk != fromBlk {
					m.cls["move/onto-partner-block"] = true
				}
			}
		}
		n.es.Move(from, to)
		m.applied["move"]++
		return tag, nil

	case "blocks":
		return m.applyBlocks(n, o, what)

	case "reload":
		// recreation of the tag and label denormalizations of an instance whose content did not change: every view must
		// read as before (the labelsz is NOT reloaded here)
		check, lowmem := o.Check, o.LowMem
		if lowmem && m.steer("reload-lowmem") {
			lowmem = false
		}
		r := drive.Post(m.an(n, fmt.Sprintf("reload?inmemory=%v&check=%v", !lowmem, check)), nil)
		if err := m.bad(r, "POST-reload", what); err != nil {
			return "reload", err
		}
		if !r.OK() {
			return "reload", stats.Violf("C13/POST-reload/refused", "%s: %s", what, r)
		}
		m.waitReload(n)
		m.pending = true
		m.cls["reload-only"] = true
		m.applied["reload"]++
		if lowmem {
			m.qual["labelsz"] = "/lowmem"
		}
		if check {
			m.qual["denorm"] = "/check"
		}
		return "reload", nil

	case "merge", "cleave", "splitsv", "mutate":
		if !n.ingested {
			return "", nil
		}
		return m.applyLabelOp(n, o, what)
	}
	return "", nil
}

// applyBlocks: block-level ingest of one block followed by reload of the annotation denormalizations and of the labelsz.
func (m *machine) applyBlocks(n *vnode, o aop, what string) (string, error) {
	var blk [3]int32
	if p, ok := m.pick(n, o.E, false); ok && o.A%3 != 0 {
		blk = model.BlockOfPos(p, blockEdge)
	} else {
		blk = model.BlockOfPos(m.resolve(n, ppos{Near: -1, Blk: o.At.Blk, In: o.At.In}), blockEdge)
	}
	// the caller partitions the elements properly: the block's new content = kept old elements (+changes) + new elements of that block
	var content []model.AnnElem
	k := 0
	for _, p := range n.es.Positions() {
		if model.BlockOfPos(p, blockEdge) != blk {
			continue
		}
		e := n.es.E[p].Copy()
		if len(e.Rels) == 0 && (o.N>>uint(k))&1 == 1 {
			k++
			continue // dropped (it has no partner that would be left with a dangling reference)
		}
		k++
		content = append(content, e)
	}
	occupied := map[[3]int32]bool{}
	for _, e := range content {
		occupied[e.Pos] = true
	}
	total := len(n.es.E)
	first := len(content)
	for _, pe := range o.Elems {
		if total >= maxElems {
			break
		}
		p := [3]int32{blk[0]*blockEdge + int32(mod(int(pe.At.In[0]), blockEdge)), blk[1]*blockEdge + int32(mod(int(pe.At.In[1]), blockEdge)), blk[2]*blockEdge + int32(mod(int(pe.At.In[2]), blockEdge))}
		if occupied[p] {
			continue
		}
		if _, exists := n.es.E[p]; exists {
			continue // a dropped element's position is not reused in the same ingest
		}
		occupied[p] = true
		total++
		content = append(content, model.AnnElem{Pos: p, Kind: kinds[mod(pe.Kind, len(kinds))], Tags: m.tagsOf(pe.Tags), Prop: propsOf(pe.Prop)})
	}
	for i, pe := range o.Elems {
		a := first + i
		if pe.Rel < 0 || a >= len(content) || len(content)-first < 2 {
			continue
		}
		b := first + mod(pe.Rel, len(content)-first)
		if a == b || related(content[a], content[b]) {
			continue
		}
		link(&content[a], &content[b], pe.RelT, pe.RelN)
	}
	check, lowmem := o.Check, o.LowMem
	if check && m.steer("reload-check") {
		check = false
	}
	if _, ok := m.avoid["labelsz-notes"]; ok {
		// the labelsz reload counts non-synaptic kinds into AllSyn: keep those kinds off labelled voxels
		changed := false
		for p, e := range n.es.E {
			if model.BlockOfPos(p, blockEdge) != blk && !model.SynapticKind(e.Kind) && m.bodyAt(n, p) != 0 {
				return "", nil // such an element exists elsewhere: the labelsz reload cannot be exercised on this state
			}
		}
		for i, e := range content {
			if !model.SynapticKind(e.Kind) && m.bodyAt(n, e.Pos) != 0 {
				content[i].Kind = "PostSyn"
				changed = true
			}
		}
		if changed {
			stats.Excluded(m.avoid["labelsz-notes"])
		}
	}
	if content == nil {
		content = []model.AnnElem{}
	}
	body := map[string][]model.AnnElem{fmt.Sprintf("%d,%d,%d", blk[0], blk[1], blk[2]): content}
	r := postJSON(m.an(n, "blocks"), body)
	if err := m.bad(r, "POST-blocks", what); err != nil {
		return "blocks+reload", err
	}
	if !r.OK() {
		return "blocks+reload", stats.Violf("C13/POST-blocks/refused"+m.negSuffix(), "%s: block %v %s: %s", what, blk, brief(content), r)
	}
	n.es.SetBlock(blk, blockEdge, content)
	q := fmt.Sprintf("reload?inmemory=%v&check=%v", !lowmem, check)
	r = drive.Post(m.an(n, q), nil)
	if err := m.bad(r, "POST-reload", what); err != nil {
		return "blocks+reload", err
	}
	if !r.OK() {
		return "blocks+reload", stats.Violf("C13/POST-reload/refused", "%s: %s", what, r)
	}
	m.waitReload(n)
	// POST blocks "does not transmit subscriber events to associated synced data (e.g., labelsz)": reload the labelsz too
	r = drive.Post(m.sz(n, "reload"), nil)
	if err := m.bad(r, "labelsz-reload", what); err != nil {
		return "blocks+reload", err
	}
	if !r.OK() {
		return "blocks+reload", stats.Violf("C13/labelsz-reload/refused", "%s: %s", what, r)
	}
	m.waitLabelsz(n)
	m.pending, m.pendingSz = true, true
	m.cls["reload"] = true
	tag := "blocks+reload"
	nonSyn := false
	for p, e := range n.es.E {
		if !model.SynapticKind(e.Kind) && m.bodyAt(n, p) != 0 {
			nonSyn = true
		}
	}
	if check {
		m.cls["reload/check"] = true
	}
	if lowmem {
		m.cls["reload/lowmem"] = true
	}
	if nonSyn {
		m.qual["labelsz"] = "/non-synaptic-kinds" // Note / Unknown elements sit on labelled voxels while the labelsz is rebuilt
		m.cls["reload/non-synaptic-kinds"] = true
	}
	if check {
		m.qual["denorm"] = "/check"
	}
	m.applied["blocks"]++
	return tag, nil
}

func (m *machine) extract(arr []uint64, off, size [3]int32) []uint64 {
	out := make([]uint64, 0, int(size[0])*int(size[1])*int(size[2]))
	for z := off[2]; z < off[2]+size[2]; z++ {
		for y := off[1]; y < off[1]+size[1]; y++ {
			for x := off[0]; x < off[0]+size[0]; x++ {
				i, _ := m.g.Idx(x, y, z)
				out = append(out, arr[i])
			}
		}
	}
	return out
}

func sortedKeys(m map[uint64]uint64) []uint64 {
	var out []uint64
	for k := range m {
		out = append(out, k)
	}
	sort.Slice(out, func(i, j int) bool { return out[i] < out[j] })
	return out
}

func uniq(v []uint64) []uint64 {
	sort.Slice(v, func(i, j int) bool { return v[i] < v[j] })
	var out []uint64
	for i, x := range v {
		if i == 0 || x != v[i-1] {
			out = append(out, x)
		}
	}
	return out
}

func (m *machine) applyLabelOp(n *vnode, o aop, what string) (string, error) {
	cnt := m.elementsOnBody(n)
	bodies := m.bodiesByElems(n)
	noteNT := func(affected ...uint64) {
		for _, b := range affected {
			if cnt[b] >= 2 {
				m.ntLabelOp = true
				m.cls["label-op/"+o.Kind] = true
			}
		}
	}
	switch o.Kind {
	case "merge":
		if len(bodies) < 2 {
			return "", nil
		}
		target := bodies[mod(o.A, len(bodies))]
		var merged []uint64
		for j := 0; j < 1+mod(o.N, 2); j++ {
			b := bodies[mod(o.A+1+mod(o.B, len(bodies)-1)+j, len(bodies))]
			if b != target {
				merged = append(merged, b)
			}
		}
		merged = uniq(merged)
		if len(merged) == 0 {
			return "", nil
		}
		_, r := m.lm.Merge(n.uuid, target, merged)
		if err := m.bad(r, "labelmap-merge", what); err != nil {
			return "merge", err
		}
		if !r.OK() {
			return "merge", stats.Violf("C13/labelmap-merge/refused", "%s target %d merged %v: %s", what, target, merged, r)
		}
		noteNT(append([]uint64{target}, merged...)...)
		n.st.Merge(target, merged)
		m.applied["merge"]++
		return "merge", nil

	case "cleave":
		var body uint64
		var svs []uint64
		for j := 0; j < len(bodies); j++ {
			b := bodies[mod(o.A+j, len(bodies))]
			if s := n.st.SupervoxelsOf(b); len(s) >= 2 {
				body, svs = b, s
				break
			}
		}
		if body == 0 {
			return "", nil
		}
		// supervoxels under elements first, so that cleaves tend to move elements
		under := map[uint64]bool{}
		for p := range n.es.E {
			under[m.svAt(n, p)] = true
		}
		sort.SliceStable(svs, func(i, j int) bool { return under[svs[i]] && !under[svs[j]] })
		k := 1 + mod(o.N, len(svs)-1)
		var pick []uint64
		for j := 0; j < k; j++ {
			pick = append(pick, svs[mod(o.B+j, len(svs))])
		}
		if o.Shape%2 == 0 {
			// cleave exactly the supervoxels that carry elements: the remaining body keeps voxels but no element
			var u []uint64
			for _, sv := range svs {
				if under[sv] {
					u = append(u, sv)
				}
			}
			if len(u) > 0 && len(u) < len(svs) {
				pick = u
				m.cls["cleave/takes-every-element"] = true
			}
		}
		pick = uniq(pick)
		if len(pick) >= len(svs) {
			return "", nil
		}
		resp, r := m.lm.Cleave(n.uuid, body, pick)
		if err := m.bad(r, "labelmap-cleave", what); err != nil {
			return "cleave", err
		}
		if !r.OK() || resp.CleavedLabel == 0 {
			return "cleave", stats.Violf("C13/labelmap-cleave/refused", "%s body %d svs %v: %s", what, body, pick, r)
		}
		noteNT(body)
		n.st.Cleave(resp.CleavedLabel, pick)
		m.applied["cleave"]++
		return "cleave", nil

	case "splitsv":
		counts := n.st.SVCounts()
		svs := sortedKeys(counts)
		if len(svs) == 0 {
			return "", nil
		}
		under := map[uint64]int{}
		for p := range n.es.E {
			under[m.svAt(n, p)]++
		}
		sort.SliceStable(svs, func(i, j int) bool { return under[svs[i]] > under[svs[j]] })
		sv := svs[mod(o.A, len(svs))]
		in := m.splitShape(n, sv, o)
		if len(in) == 0 || len(in) >= int(counts[sv]) {
			return "", nil
		}
		runs := lmdrive.RunsOf(m.g, in)
		resp, r := m.lm.SplitSupervoxel(n.uuid, sv, runs, "")
		if err := m.bad(r, "labelmap-split-supervoxel", what); err != nil {
			return "splitsv", err
		}
		if !r.OK() || resp.SplitSupervoxel == 0 || resp.RemainSupervoxel == 0 {
			return "splitsv", stats.Violf("C13/labelmap-split-supervoxel/refused", "%s sv %d: %s", what, sv, r)
		}
		noteNT(n.st.Body(sv))
		n.st.SplitSupervoxel(sv, resp.SplitSupervoxel, resp.RemainSupervoxel, in)
		m.applied["splitsv"]++
		return "splitsv", nil

	case "mutate":
		off, size := m.g.Offset(), m.g.Size()
		arr := append([]uint64(nil), n.st.SV...)
		ps := n.es.Positions()
		var boxes []box
		for j, b := range o.Paint {
			nbx := b
			if len(ps) > 0 && j%2 == 0 {
				// centre the box on an element so that the edit changes the body under it
				p := ps[mod(o.E+j, len(ps))]
				for a := 0; a < 3; a++ {
					nbx.Off[a] = p[a] - off[a] - b.Size[a]/2
				}
			}
			boxes = append(boxes, nbx)
		}
		paint(m.g, arr, boxes, m.c.Palette)
		for _, v := range arr {
			if b, ok := n.st.Map[v]; ok && b == 0 && v != 0 {
				return "", nil // a split supervoxel id must not be re-introduced
			}
		}
		// restrict the write to the blocks that change
		changed := map[[3]int32]bool{}
		for i := range arr {
			if arr[i] != n.st.SV[i] {
				changed[m.g.BlockOf(i)] = true
			}
		}
		if len(changed) == 0 {
			return "", nil
		}
		var lo, hi [3]int32
		first := true
		for bc := range changed {
			for a := 0; a < 3; a++ {
				if first || bc[a] < lo[a] {
					lo[a] = bc[a]
				}
				if first || bc[a] > hi[a] {
					hi[a] = bc[a]
				}
			}
			first = false
		}
		for a := 0; a < 3; a++ {
			off[a] = lo[a] * blockEdge
			size[a] = (hi[a] - lo[a] + 1) * blockEdge
		}
		// every block of the written box is re-stored (and announced to the annotation instance), changed or not
		tag := "mutate"
		mapped := false
		for _, p := range ps {
			if i, ok := m.g.Idx(p[0], p[1], p[2]); ok && inBox(model.BlockOfPos(p, blockEdge), lo, hi) {
				for _, sv := range []uint64{n.st.SV[i], arr[i]} {
					if sv != 0 && n.st.Body(sv) != sv {
						mapped = true
					}
				}
			}
		}
		if mapped {
			if m.steer("mutate-mapped") {
				return "", nil
			}
			tag = "mutate/mapped-supervoxels"
		}
		vox := m.extract(arr, off, size)
		before := map[[3]int32]uint64{}
		for _, p := range ps {
			before[p] = m.bodyAt(n, p)
		}
		r := m.lm.PostRaw(n.uuid, off, size, vox, true)
		if err := m.bad(r, "labelmap-mutate", what); err != nil {
			return tag, err
		}
		if !r.OK() {
			return tag, stats.Violf("C13/labelmap-mutate/refused"+m.negSuffix(), "%s off %v size %v: %s", what, off, size, r)
		}
		n.st.Write(off, size, vox)
		moved := 0
		for _, p := range ps {
			if m.bodyAt(n, p) != before[p] {
				moved++
			}
		}
		if moved > 0 {
			m.cls["mutate/changes-body-under-element"] = true
			for _, p := range ps {
				if m.bodyAt(n, p) != before[p] {
					noteNT(before[p], m.bodyAt(n, p))
				}
			}
		}
		m.applied["mutate"]++
		return tag, nil
	}
	return "", nil
}

// splitShape returns the voxel indices of sv selected by the op's shape.
func (m *machine) splitShape(n *vnode, sv uint64, o aop) map[int]bool {
	var mine []int
	for i, v := range n.st.SV {
		if v == sv {
			mine = append(mine, i)
		}
	}
	in := map[int]bool{}
	if len(mine) == 0 {
		return in
	}
	switch mod(o.Shape, 4) {
	case 0: // first k voxels in scan order
		k := 1 + mod(o.N, len(mine))
		for _, i := range mine[:k] {
			in[i] = true
		}
	case 1: // everything inside one block
		blk := m.g.BlockOf(mine[mod(o.B, len(mine))])
		for _, i := range mine {
			if m.g.BlockOf(i) == blk {
				in[i] = true
			}
		}
	case 2: // half-space x <= cut
		x0, _, _ := m.g.Coord(mine[mod(o.B, len(mine))])
		for _, i := range mine {
			if x, _, _ := m.g.Coord(i); x <= x0 {
				in[i] = true
			}
		}
	case 3: // the voxels under elements plus their x-neighbours
		for p := range n.es.E {
			for dx := int32(-1); dx <= 1; dx++ {
				if i, ok := m.g.Idx(p[0]+dx, p[1], p[2]); ok && n.st.SV[i] == sv {
					in[i] = true
				}
			}
		}
	}
	return in
}

// ------------------------------------------------------------------ oracle

func decodeElems(b []byte) ([]model.AnnElem, error) {
	var out []model.AnnElem
	if err := json.Unmarshal(b, &out); err != nil {
		return nil, err
	}
	return out, nil
}

func inBox(p, lo, hi [3]int32) bool {
	for a := 0; a < 3; a++ {
		if p[a] < lo[a] || p[a] > hi[a] {
			return false
		}
	}
	return true
}

type lsz struct {
	Label uint64
	Size  uint64
}

// decodeLabelSizes accepts [{"Label":n,"<any other key>":count}, ...].
func decodeLabelSizes(b []byte) ([]lsz, error) {
	var raw []map[string]uint64
	if err := json.Unmarshal(b, &raw); err != nil {
		return nil, err
	}
	var out []lsz
	for _, m := range raw {
		l, ok := m["Label"]
		if !ok || len(m) != 2 {
			return nil, fmt.Errorf("unexpected entry %v", m)
		}
		for k, v := range m {
			if k != "Label" {
				out = append(out, lsz{l, v})
			}
		}
	}
	return out, nil
}

// check compares every view of the annotation instance (and the labelsz) at node ni with the reference model.
// after names the op that was applied last; it is part of the signatures.
func (m *machine) check(ni int, after string) error {
	n := m.nodes[ni]
	sig := func(view, cond string) string {
		q := ""
		switch {
		case view == "tag" || view == "label":
			q = m.qual["denorm"]
		case strings.HasPrefix(view, "labelsz"):
			q = m.qual["labelsz"]
		}
		if strings.HasPrefix(after, "final-sweep") {
			q = ""
		}
		return "C13/" + view + "/" + cond + "/after-" + after + q + m.negSuffix()
	}
	ctx := fmt.Sprintf("after %s, reading node %d", after, ni)
	if m.pending {
		m.waitReload(n)
	}
	if m.pendingSz {
		m.waitLabelsz(n)
	}
	if m.pollPanic != nil {
		return m.pollPanic
	}
	get := func(url, endpoint string) (drive.Resp, error) {
		r := drive.Get(url)
		if r.IsPanic() {
			return r, stats.Violf("C13/"+endpoint+"/panic", "%s: GET %s: %s", ctx, url, r)
		}
		if !r.OK() {
			return r, stats.Violf(sig(endpoint, "refused"), "%s: GET %s: %s", ctx, url, r)
		}
		return r, nil
	}
	all := n.es.Select(nil)

	// ---- all-elements: E partitioned by block
	r, err := get(m.an(n, "all-elements"), "all-elements")
	if err != nil {
		return err
	}
	var byBlock map[string][]model.AnnElem
	if err := json.Unmarshal(r.Body, &byBlock); err != nil {
		return stats.Violf(sig("all-elements", "bad-json"), "%s: %v: %s", ctx, err, r)
	}
	var got []model.AnnElem
	seenPos := map[[3]int32]bool{}
	for key, elems := range byBlock {
		var bc [3]int32
		if _, err := fmt.Sscanf(key, "%d,%d,%d", &bc[0], &bc[1], &bc[2]); err != nil {
			return stats.Violf(sig("all-elements", "bad-block-key"), "%s: key %q", ctx, key)
		}
		for _, e := range elems {
			if model.BlockOfPos(e.Pos, blockEdge) != bc {
				return stats.Violf(sig("all-elements", "element-in-wrong-block"), "%s: element at %v listed under block %s", ctx, e.Pos, key)
			}
			if seenPos[e.Pos] {
				return stats.Violf(sig("all-elements", "duplicate-position"), "%s: two elements at %v", ctx, e.Pos)
			}
			seenPos[e.Pos] = true
			got = append(got, e)
		}
	}
	if d := model.DiffCanon(model.CanonList(got, false), model.CanonList(all, false)); d != "" {
		return stats.Violf(sig("all-elements", "differs-from-model"), "%s: %s", ctx, d)
	}
	for _, e := range got {
		for _, rel := range e.Rels {
			if !seenPos[rel.To] {
				return stats.Violf(sig("rels", "dangling-reference"), "%s: element %v has relationship %s to %v where no element exists", ctx, e.Pos, rel.Rel, rel.To)
			}
		}
	}
	if d := model.DiffCanon(model.CanonList(got, true), model.CanonList(all, true)); d != "" {
		return stats.Violf(sig("rels", "differs-from-model"), "%s: %s", ctx, d)
	}

	// ---- blocks/<size>/<offset>: every element of every block intersecting the box
	ext0 := [3]int32{(m.g.OB[0] - 1) * blockEdge, (m.g.OB[1] - 1) * blockEdge, (m.g.OB[2] - 1) * blockEdge}
	extS := [3]int32{(nb[0] + 2) * blockEdge, (nb[1] + 2) * blockEdge, (nb[2] + 2) * blockEdge}
	type qbox struct{ lo, hi [3]int32 }
	boxes := []qbox{{ext0, [3]int32{ext0[0] + extS[0] - 1, ext0[1] + extS[1] - 1, ext0[2] + extS[2] - 1}}}
	ps := n.es.Positions()
	if len(ps) >= 1 {
		p := ps[len(ps)/2]
		boxes = append(boxes, qbox{p, p})                                              // one voxel
		boxes = append(boxes, qbox{[3]int32{p[0] + 1, ext0[1], ext0[2]}, boxes[0].hi}) // just excludes p along x
		boxes = append(boxes, qbox{boxes[0].lo, [3]int32{p[0], p[1], p[2]}})           // p is the inclusive max corner
	}
	if len(ps) >= 2 {
		a, b := ps[0], ps[len(ps)-1]
		var lo, hi [3]int32
		for k := 0; k < 3; k++ {
			lo[k], hi[k] = a[k], b[k]
			if lo[k] > hi[k] {
				lo[k], hi[k] = hi[k], lo[k]
			}
		}
		boxes = append(boxes, qbox{lo, hi})
	}
	for bi, bx := range boxes {
		size := [3]int32{bx.hi[0] - bx.lo[0] + 1, bx.hi[1] - bx.lo[1] + 1, bx.hi[2] - bx.lo[2] + 1}
		// elements/<size>/<offset> = E ∩ box
		r, err := get(m.an(n, "elements/"+p3(size)+"/"+p3(bx.lo)), "elements")
		if err != nil {
			return err
		}
		ge, e2 := decodeElems(r.Body)
		if e2 != nil {
			return stats.Violf(sig("elements", "bad-json"), "%s: %v: %s", ctx, e2, r)
		}
		want := n.es.Select(func(e model.AnnElem) bool { return inBox(e.Pos, bx.lo, bx.hi) })
		if d := model.DiffCanon(model.CanonList(ge, true), model.CanonList(want, true)); d != "" {
			return stats.Violf(sig("elements", "differs-from-model"), "%s: box %v..%v: %s", ctx, bx.lo, bx.hi, d)
		}
		if bi == 2 {
			continue
		}
		r, err = get(m.an(n, "blocks/"+p3(size)+"/"+p3(bx.lo)), "blocks")
		if err != nil {
			return err
		}
		var bb map[string][]model.AnnElem
		if err := json.Unmarshal(r.Body, &bb); err != nil {
			return stats.Violf(sig("blocks", "bad-json"), "%s: %v: %s", ctx, err, r)
		}
		var gb []model.AnnElem
		for key, elems := range bb {
			var bc [3]int32
			fmt.Sscanf(key, "%d,%d,%d", &bc[0], &bc[1], &bc[2])
			for _, e := range elems {
				if model.BlockOfPos(e.Pos, blockEdge) != bc {
					return stats.Violf(sig("blocks", "element-in-wrong-block"), "%s: element at %v listed under block %s", ctx, e.Pos, key)
				}
				gb = append(gb, e)
			}
		}
		blo, bhi := model.BlockOfPos(bx.lo, blockEdge), model.BlockOfPos(bx.hi, blockEdge)
		want = n.es.Select(func(e model.AnnElem) bool { return inBox(model.BlockOfPos(e.Pos, blockEdge), blo, bhi) })
		if d := model.DiffCanon(model.CanonList(gb, true), model.CanonList(want, true)); d != "" {
			return stats.Violf(sig("blocks", "differs-from-model"), "%s: box %v..%v: %s", ctx, bx.lo, bx.hi, d)
		}
	}

	// ---- tag/<t>
	for _, t := range append(append([]string(nil), m.c.Tags...), "neverused") {
		want := n.es.Select(func(e model.AnnElem) bool { return e.HasTag(t) })
		for _, rels := range []bool{false, true} {
			q := ""
			if rels {
				q = "?relationships=true"
			}
			r, err := get(m.an(n, "tag/"+t+q), "tag")
			if err != nil {
				return err
			}
			ge, e2 := decodeElems(r.Body)
			if e2 != nil {
				return stats.Violf(sig("tag", "bad-json"), "%s: %v: %s", ctx, e2, r)
			}
			if d := model.DiffCanon(model.CanonList(ge, rels), model.CanonList(want, rels)); d != "" {
				return stats.Violf(sig("tag", "differs-from-model"), "%s: tag %q (relationships=%v): %s", ctx, t, rels, d)
			}
		}
	}

	// ---- label/<l>: {e : body(e.Pos) = l}
	labelSet := map[uint64]bool{987654321: true}
	for b := range n.st.Bodies() {
		labelSet[b] = true
	}
	for sv, b := range n.st.Map {
		if sv != 0 {
			labelSet[sv] = true
		}
		if b != 0 {
			labelSet[b] = true
		}
	}
	for _, v := range m.c.Palette {
		labelSet[v] = true
	}
	var labels []uint64
	for l := range labelSet {
		labels = append(labels, l)
	}
	sort.Slice(labels, func(i, j int) bool { return labels[i] < labels[j] })
	if len(ps) > 0 && n.ingested {
		ls, r := m.lm.Labels(n.uuid, ps, false)
		if r.IsPanic() {
			return stats.Violf("C13/labelmap-labels/panic", "%s: %s", ctx, r)
		}
		if ls == nil || len(ls) != len(ps) {
			return stats.Violf(sig("labelmap-labels", "refused"), "%s: %s", ctx, r)
		}
		for i, p := range ps {
			if ls[i] != m.bodyAt(n, p) {
				return stats.Violf(sig("labelmap-labels", "differs-from-model"), "%s: labelmap says voxel %v belongs to %d, volume model %d", ctx, p, ls[i], m.bodyAt(n, p))
			}
		}
	}
	for _, l := range labels {
		want := n.es.Select(func(e model.AnnElem) bool { return m.bodyAt(n, e.Pos) == l })
		for _, rels := range []bool{false, true} {
			q := ""
			if rels {
				q = "?relationships=true"
			}
			r, err := get(m.an(n, fmt.Sprintf("label/%d%s", l, q)), "label")
			if err != nil {
				return err
			}
			ge, e2 := decodeElems(r.Body)
			if e2 != nil {
				return stats.Violf(sig("label", "bad-json"), "%s: %v: %s", ctx, e2, r)
			}
			if d := model.DiffCanon(model.CanonList(ge, rels), model.CanonList(want, rels)); d != "" {
				return stats.Violf(sig("label", "differs-from-model"), "%s: label %d (relationships=%v): %s", ctx, l, rels, d)
			}
		}
	}

	// ---- roi/<R> (the ROI has the annotation's block size)
	if len(m.roiSet) > 0 {
		want := n.es.Select(func(e model.AnnElem) bool { return m.roiSet[model.BlockOfPos(e.Pos, blockEdge)] })
		for _, spec := range []string{"r", "r," + n.uuid} {
			r, err := get(m.an(n, "roi/"+spec), "roi")
			if err != nil {
				return err
			}
			ge, e2 := decodeElems(r.Body)
			if e2 != nil {
				return stats.Violf(sig("roi", "bad-json"), "%s: %v: %s", ctx, e2, r)
			}
			if d := model.DiffCanon(model.CanonList(ge, true), model.CanonList(want, true)); d != "" {
				return stats.Violf(sig("roi", "differs-from-model"), "%s: roi %s: %s", ctx, spec, d)
			}
		}
		if len(want) > 0 {
			m.cls["roi"] = true
		}
	}

	// ---- labelsz: counts computed from E per body and kind
	exp := map[string]map[uint64]uint64{}
	for _, t := range idxTypes {
		exp[t] = map[uint64]uint64{}
	}
	for _, e := range all {
		b := m.bodyAt(n, e.Pos)
		if b == 0 {
			continue
		}
		if _, ok := exp[e.Kind]; ok && e.Kind != "AllSyn" {
			exp[e.Kind][b]++
		}
		if model.SynapticKind(e.Kind) {
			exp["AllSyn"][b]++
		}
	}
	lb, _ := json.Marshal(labels)
	for _, t := range idxTypes {
		r := drive.Do("GET", m.sz(n, "counts/"+t), lb)
		if r.IsPanic() {
			return stats.Violf("C13/labelsz-counts/panic", "%s: %s", ctx, r)
		}
		if !r.OK() {
			return stats.Violf(sig("labelsz-counts", "refused"), "%s: %s", ctx, r)
		}
		gl, e2 := decodeLabelSizes(r.Body)
		if e2 != nil || len(gl) != len(labels) {
			return stats.Violf(sig("labelsz-counts", "bad-answer"), "%s: %v: %s", ctx, e2, r)
		}
		for i, l := range labels {
			if gl[i].Label != l || gl[i].Size != exp[t][l] {
				return stats.Violf(sig("labelsz-counts", "differs-from-model"), "%s: %s of label %d is %d (entry for label %d), counted from the elements %d", ctx, t, l, gl[i].Size, gl[i].Label, exp[t][l])
			}
			if exp[t][l] > 0 {
				m.cls["labelsz"] = true
			}
		}
		// single-label endpoint for the two labels with most elements of this type
		var ranked []uint64
		for l, c := range exp[t] {
			if c > 0 {
				ranked = append(ranked, l)
			}
		}
		sort.Slice(ranked, func(i, j int) bool {
			if exp[t][ranked[i]] != exp[t][ranked[j]] {
				return exp[t][ranked[i]] > exp[t][ranked[j]]
			}
			return ranked[i] < ranked[j]
		})
		for i := 0; i < len(ranked) && i < 2; i++ {
			r, err := get(m.sz(n, fmt.Sprintf("count/%d/%s", ranked[i], t)), "labelsz-count")
			if err != nil {
				return err
			}
			var one map[string]uint64
			if err := json.Unmarshal(r.Body, &one); err != nil || one["Label"] != ranked[i] || one[t] != exp[t][ranked[i]] {
				return stats.Violf(sig("labelsz-count", "differs-from-model"), "%s: %s of label %d: %s, counted from the elements %d", ctx, t, ranked[i], r, exp[t][ranked[i]])
			}
		}
		// top/<N>/<type>
		for _, N := range []int{2, 50} {
			r, err := get(m.sz(n, fmt.Sprintf("top/%d/%s", N, t)), "labelsz-top")
			if err != nil {
				return err
			}
			gl, e2 := decodeLabelSizes(r.Body)
			if e2 != nil {
				return stats.Violf(sig("labelsz-top", "bad-answer"), "%s: %v: %s", ctx, e2, r)
			}
			if why := cmpRanking(gl, exp[t], ranked, N, 0); why != "" {
				return stats.Violf(sig("labelsz-top", "differs-from-model"), "%s: top/%d/%s: %s; answer %s", ctx, N, t, why, r)
			}
		}
		// threshold/<T>/<type>
		for _, T := range []uint64{1, 2} {
			r, err := get(m.sz(n, fmt.Sprintf("threshold/%d/%s", T, t)), "labelsz-threshold")
			if err != nil {
				return err
			}
			gl, e2 := decodeLabelSizes(r.Body)
			if e2 != nil {
				return stats.Violf(sig("labelsz-threshold", "bad-answer"), "%s: %v: %s", ctx, e2, r)
			}
			if why := cmpRanking(gl, exp[t], ranked, 1<<30, T); why != "" {
				return stats.Violf(sig("labelsz-threshold", "differs-from-model"), "%s: threshold/%d/%s: %s; answer %s", ctx, T, t, why, r)
			}
		}
	}
	return nil
}

// cmpRanking checks a descending (label,count) listing against the expected counts: every listed count is the label's
// count, labels are distinct, counts never increase, and the listing holds exactly the first min(N, #eligible) entries of the
// expected ranking up to the order among equal counts.  Entries with count 0 are ignored (the text is silent on them).
func cmpRanking(got []lsz, exp map[uint64]uint64, ranked []uint64, N int, minCount uint64) string {
	var g []lsz
	for _, x := range got {
		if x.Size > 0 {
			g = append(g, x)
		}
	}
	var elig []uint64
	for _, l := range ranked {
		if exp[l] >= minCount && exp[l] > 0 {
			elig = append(elig, l)
		}
	}
	wantN := len(elig)
	if N < wantN {
		wantN = N
	}
	seen := map[uint64]bool{}
	for i, x := range g {
		if seen[x.Label] {
			return fmt.Sprintf("label %d listed twice", x.Label)
		}
		seen[x.Label] = true
		if exp[x.Label] != x.Size {
			return fmt.Sprintf("label %d listed with %d, counted from the elements %d", x.Label, x.Size, exp[x.Label])
		}
		if i > 0 && g[i-1].Size < x.Size {
			return "not in descending order"
		}
		if x.Size < minCount {
			return fmt.Sprintf("label %d (count %d) is below the threshold", x.Label, x.Size)
		}
	}
	if len(g) != wantN {
		return fmt.Sprintf("%d labels listed, expected %d", len(g), wantN)
	}
	for i := 0; i < wantN; i++ {
		if g[i].Size != exp[elig[i]] {
			return fmt.Sprintf("rank %d has count %d, expected %d", i, g[i].Size, exp[elig[i]])
		}
	}
	return ""
}

// ------------------------------------------------------------------ property

type outcome struct {
	cls     []string
	nt      bool
	applied map[string]int
}

func checkC13(c c13Case) (outcome, error) {
	m, err := newMachine(c)
	if err != nil {
		return outcome{}, fmt.Errorf("setup: %v", err)
	}
	fin := func() outcome {
		var cls []string
		for k := range m.cls {
			cls = append(cls, k)
		}
		if m.neg {
			cls = append(cls, "negative-coords")
		}
		for k, v := range m.applied {
			if v > 0 {
				cls = append(cls, "applied/"+k)
			}
		}
		sort.Strings(cls)
		return outcome{cls: cls, nt: m.ntLabelOp && m.ntPartner, applied: m.applied}
	}
	for i, o := range c.Ops {
		tag, err := m.apply(i, o)
		if err != nil {
			return fin(), err
		}
		if tag == "" {
			continue
		}
		drive.Settle(m.root)
		ni := len(m.nodes) - 1
		after := tag
		if err := drive.WithDeepRetry(m.root, func() error { return m.check(ni, after) }); err != nil {
			if v, ok := err.(*stats.Violation); ok {
				v.Msg = fmt.Sprintf("op %d: %s", i, v.Msg)
			}
			return fin(), err
		}
		m.pending, m.pendingSz = false, false
		// relationship-shape, border and outside classes from the model state
		for p := range m.cur().es.E {
			if mu, cross, partners := partnerShape(m.cur().es, p); mu || partners >= 2 {
				if mu {
					m.cls["rels/multi-relationship-pair"] = true
					if cross {
						m.cls["rels/multi-relationship-pair/cross-block"] = true
					} else {
						m.cls["rels/multi-relationship-pair/same-block"] = true
					}
				}
				if partners >= 2 {
					m.cls["rels/multi-partner"] = true
				}
			}
			for a := 0; a < 3; a++ {
				r := mod(int(p[a]), blockEdge)
				if r == 0 || r == blockEdge-1 {
					m.cls["border-position"] = true
				}
			}
			if _, ok := m.g.Idx(p[0], p[1], p[2]); !ok {
				m.cls["outside-label-extent"] = true
			}
		}
	}
	// final sweep: every earlier version still reads as its own history says
	for vi := 0; vi+1 < len(m.nodes); vi++ {
		vi := vi
		if err := drive.WithDeepRetry(m.root, func() error { return m.check(vi, "final-sweep/old-version") }); err != nil {
			return fin(), err
		}
	}
	return fin(), nil
}

// ------------------------------------------------------------------ generator

func genBox(t *rapid.T, g [3]int32, label string, npal int, small bool) box {
	var b box
	kind := rapid.IntRange(0, 3).Draw(t, label+"kind")
	if small {
		kind = 0
	}
	for a := 0; a < 3; a++ {
		b.Off[a] = rapid.Int32Range(0, g[a]-1).Draw(t, label+"off")
		switch kind {
		case 0:
			b.Size[a] = rapid.Int32Range(1, 8).Draw(t, label+"sz")
		case 1:
			b.Size[a] = rapid.Int32Range(4, 20).Draw(t, label+"sz")
		default:
			b.Size[a] = rapid.Int32Range(10, g[a]).Draw(t, label+"sz")
		}
	}
	b.SV = rapid.IntRange(0, npal-1).Draw(t, label+"sv")
	return b
}

func genPos(t *rapid.T, label string) ppos {
	var p ppos
	p.Near = -1
	if rapid.IntRange(0, 3).Draw(t, label+"nearq") == 0 {
		p.Near = rapid.IntRange(0, maxElems).Draw(t, label+"near")
	}
	outside := rapid.IntRange(0, 7).Draw(t, label+"outside") == 0 // one block outside the label extent on some axis
	for a := 0; a < 3; a++ {
		p.Delta[a] = rapid.Int32Range(-3, 3).Draw(t, label+"delta")
		p.Blk[a] = rapid.Int32Range(0, nb[a]-1).Draw(t, label+"blk")
		if outside && rapid.IntRange(0, 1).Draw(t, label+"outaxis") == 0 {
			p.Blk[a] = rapid.SampledFrom([]int32{-1, nb[a]}).Draw(t, label+"outblk")
		}
		p.In[a] = rapid.SampledFrom([]int32{0, 0, 15, 15, 1, 14, 3, 5, 7, 8, 9, 11, 13}).Draw(t, label+"in")
	}
	return p
}

func genElem(t *rapid.T, ntags int, label string) pelem {
	e := pelem{Old: -1, Rel: -1}
	if rapid.IntRange(0, 3).Draw(t, label+"oldq") == 0 {
		e.Old = rapid.IntRange(0, maxElems).Draw(t, label+"old")
	}
	e.At = genPos(t, label)
	e.Kind = rapid.SampledFrom([]int{0, 0, 0, 1, 1, 1, 2, 3, 4}).Draw(t, label+"kind")
	e.Tags = rapid.IntRange(0, 1<<uint(ntags)-1).Draw(t, label+"tags")
	if rapid.IntRange(0, 2).Draw(t, label+"notags") == 0 {
		e.Tags = 0
	}
	e.Prop = rapid.IntRange(0, 30).Draw(t, label+"prop")
	if rapid.IntRange(0, 2).Draw(t, label+"relq") > 0 {
		e.Rel = rapid.IntRange(0, 5).Draw(t, label+"rel")
	}
	e.RelT = rapid.IntRange(0, 4).Draw(t, label+"relt")
	e.RelN = rapid.SampledFrom([]int{1, 1, 1, 2, 2, 3}).Draw(t, label+"reln")
	return e
}

func genC13(t *rapid.T) c13Case {
	var c c13Case
	c.Origin = rapid.SampledFrom([][3]int32{{0, 0, 0}, {0, 0, 0}, {0, 0, 0}, {1, 2, 3}, {-1, 0, 0}, {-1, -1, -1}, {-2, -1, 0}}).Draw(t, "origin")
	if stats.IsKnown(steerable["negative-coords"][0]) && (c.Origin[0] < 0 || c.Origin[1] < 0 || c.Origin[2] < 0) {
		c.Origin = [3]int32{0, 0, 0}
		stats.Excluded(steerable["negative-coords"][0])
	}
	neg := c.Origin[0] < 0 || c.Origin[1] < 0 || c.Origin[2] < 0
	for shape := range steerable {
		if knownSig(shape, neg) != "" {
			c.Avoid = append(c.Avoid, shape)
		}
	}
	sort.Strings(c.Avoid)
	np := rapid.IntRange(3, 8).Draw(t, "npal")
	base := rapid.SampledFrom([]uint64{1, 1, 1, 100, 1 << 32, 1 << 40}).Draw(t, "base")
	for i := 0; i < np; i++ {
		c.Palette = append(c.Palette, base+uint64(i)*uint64(rapid.IntRange(1, 3).Draw(t, "stride")))
	}
	c.Palette = uniq(c.Palette)
	ext := [3]int32{nb[0] * blockEdge, nb[1] * blockEdge, nb[2] * blockEdge}
	if rapid.IntRange(0, 3).Draw(t, "basefill") > 0 {
		c.Canvas = append(c.Canvas, box{Size: ext, SV: 0}) // most cases: no background inside the extent
	}
	for i := rapid.IntRange(3, 10).Draw(t, "nboxes"); i > 0; i-- {
		c.Canvas = append(c.Canvas, genBox(t, ext, "cv", len(c.Palette), false))
	}
	c.Canvas = append(c.Canvas, box{Off: [3]int32{0, 0, 0}, Size: [3]int32{2, 2, 2}, SV: len(c.Palette) - 1})
	ntags := rapid.IntRange(2, 4).Draw(t, "ntags")
	c.Tags = []string{"Synapse1", "tagB", "t3", "Zeta-9"}[:ntags]
	// ROI: at most one span per (z,y) row of blocks, over the extent and one block around it
	for z := int32(-1); z <= nb[2]; z++ {
		for y := int32(-1); y <= nb[1]; y++ {
			if rapid.IntRange(0, 2).Draw(t, "roirow") == 0 {
				x0 := rapid.Int32Range(-1, nb[0]).Draw(t, "roix0")
				x1 := rapid.Int32Range(x0, nb[0]).Draw(t, "roix1")
				c.ROI = append(c.ROI, [4]int32{z, y, x0, x1})
			}
		}
	}
	// history
	ingestFirst := rapid.IntRange(0, 4).Draw(t, "ingestfirst") > 0
	if ingestFirst {
		c.Ops = append(c.Ops, aop{Kind: "ingest", Via: rapid.IntRange(0, 1).Draw(t, "via0")})
	}
	// a first POST with several related elements
	first := aop{Kind: "post"}
	for j := rapid.IntRange(2, 4).Draw(t, "nfirst"); j > 0; j-- {
		first.Elems = append(first.Elems, genElem(t, ntags, "f"))
	}
	c.Ops = append(c.Ops, first)
	if !ingestFirst {
		c.Ops = append(c.Ops, aop{Kind: "ingest", Via: rapid.IntRange(0, 1).Draw(t, "via1")})
	}
	if rapid.IntRange(0, 1).Draw(t, "earlymutate") > 0 {
		// a voxel edit under the first elements while supervoxel ids still equal body ids
		o := aop{Kind: "mutate", E: rapid.IntRange(0, 3).Draw(t, "me"), At: ppos{Near: -1}}
		for j := rapid.IntRange(1, 3).Draw(t, "menp"); j > 0; j-- {
			o.Paint = append(o.Paint, genBox(t, ext, "mep", len(c.Palette), true))
		}
		c.Ops = append(c.Ops, o)
	}
	if rapid.IntRange(0, 2).Draw(t, "earlymerge") > 0 {
		// bodies with several supervoxels (needed by cleaves) only arise from merges
		c.Ops = append(c.Ops, aop{Kind: "merge", A: rapid.IntRange(0, 3).Draw(t, "ma"), B: rapid.IntRange(0, 50).Draw(t, "mb"), N: rapid.IntRange(0, 1).Draw(t, "mn"), At: ppos{Near: -1}})
	}
	kindsW := []string{"post", "post", "post", "post", "dropadd", "delete", "delete", "move", "move", "move", "move", "blocks", "blocks", "reload",
		"merge", "merge", "cleave", "cleave", "splitsv", "mutate", "mutate", "newversion"}
	nops := rapid.IntRange(4, 20).Draw(t, "nops")
	for i := 0; i < nops; i++ {
		o := aop{Kind: rapid.SampledFrom(kindsW).Draw(t, "kind")}
		o.E = rapid.IntRange(0, maxElems).Draw(t, "e")
		o.A = rapid.IntRange(0, 12).Draw(t, "a")
		o.B = rapid.IntRange(0, 5000).Draw(t, "b")
		o.N = rapid.IntRange(0, 3000).Draw(t, "n")
		o.At = genPos(t, "at")
		switch o.Kind {
		case "post":
			for j := rapid.IntRange(1, 4).Draw(t, "nel"); j > 0; j-- {
				o.Elems = append(o.Elems, genElem(t, ntags, "p"))
			}
		case "delete":
			o.Partnered = rapid.IntRange(0, 2).Draw(t, "partnered") > 0
			o.Multi = rapid.IntRange(0, 1).Draw(t, "multi") > 0
		case "move":
			o.Partnered = rapid.IntRange(0, 2).Draw(t, "partnered") > 0
			o.Multi = rapid.IntRange(0, 2).Draw(t, "multi") == 0
			o.Dest = rapid.SampledFrom([]int{0, 0, 1, 1, 2, 2, 2, 3, 3, 4, 4, 5}).Draw(t, "dest")
		case "blocks":
			for j := rapid.IntRange(0, 3).Draw(t, "nbel"); j > 0; j-- {
				o.Elems = append(o.Elems, genElem(t, ntags, "b"))
			}
			o.LowMem = rapid.IntRange(0, 2).Draw(t, "lowmem") == 0
			o.Check = rapid.IntRange(0, 3).Draw(t, "check") == 0
		case "reload":
			o.LowMem = rapid.IntRange(0, 1).Draw(t, "lowmem") == 0
			o.Check = rapid.IntRange(0, 3).Draw(t, "check") == 0
		case "splitsv", "cleave":
			o.Shape = rapid.IntRange(0, 3).Draw(t, "shape")
		case "mutate":
			for j := rapid.IntRange(1, 3).Draw(t, "npaint"); j > 0; j-- {
				o.Paint = append(o.Paint, genBox(t, ext, "mp", len(c.Palette), j%2 == 1))
			}
		}
		c.Ops = append(c.Ops, o)
	}
	return c
}

func TestC13Machine(t *testing.T) {
	rapid.Check(t, func(t *rapid.T) {
		c := genC13(t)
		stats.SetCur("C13", "TestC13Machine", c)
		out, err := checkC13(c)
		if !stats.Judge(t, "C13", "TestC13Machine", err, c) {
			return
		}
		stats.Record(stats.HashJSON(c), out.nt, out.cls, func() interface{} {
			var s []string
			for _, o := range c.Ops {
				s = append(s, fmt.Sprintf("%s e%d a%d b%d n%d dest%d elems%d", o.Kind, o.E, o.A, o.B, o.N, o.Dest, len(o.Elems)))
			}
			return map[string]interface{}{"test": "machine", "origin": c.Origin, "palette": c.Palette, "tags": c.Tags, "roi_spans": len(c.ROI),
				"ops": strings.Join(s, "; "), "applied": out.applied, "avoid": c.Avoid}
		})
	})
}

func TestReplay(t *testing.T) {
	stats.RunReplay(t, map[string]func(json.RawMessage) error{
		"TestC13Machine": func(raw json.RawMessage) error {
			var c c13Case
			if err := json.Unmarshal(raw, &c); err != nil {
				return err
			}
			_, err := checkC13(c)
			return err
		},
	})
}
