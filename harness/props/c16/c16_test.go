// C16 — neuron annotations: in-memory head equals the store; updates merge fields.
//
// O1 (dual path): after a history of writes at the master head H the check commits H and creates the master child H'
// and a fresh side branch B off H.  H' is served from the in-memory database, H and B from the store, all three hold
// the same annotations, so every read endpoint must answer the same on all three (orderings only where the help text
// promises one).  O3 (merge rules): every write is also applied to model.NJState (derived from the help text) and the
// annotation is read back.  O2: one case in six reopens the datastore in-process (datastore.CloseReopenTest) in the middle
// of the history and requires every read of the head to be the same before and after; the real process restart lives in
// the child-process check.
package c16

import (
	"encoding/json"
	"fmt"
	"os"
	"sort"
	"strconv"
	"strings"
	"testing"

	"github.com/janelia-flyem/dvid/datastore"
	dvidproto "github.com/janelia-flyem/dvid/datatype/common/proto"
	pb "google.golang.org/protobuf/proto"
	"pgregory.net/rapid"

	"verif/drive"
	"verif/model"
	"verif/stats"
)

func TestMain(m *testing.M) {
	drive.Open()
	rc := m.Run()
	drive.Close()
	stats.Flush()
	os.Exit(rc)
}

const inst = "nj"

// Signatures of the findings the generator can steer around (see FINDINGS.md).
const (
	sigCondParam      = "C16/POST-key/conditional-param-ignored"
	sigNullDrift      = "C16/fields/memory-count-drift-after-null-delete"
	sigZeroCount      = "C16/fields/zero-count-entry-in-memory"
	sigDeleteID       = "C16/DELETE-key/id-still-listed-in-memory"
	sigQueryFields    = "C16/query/fields-option-ignored-on-store-path"
	sigQueryOrder     = "C16/query/store-path-not-ascending"
	sigKeyrange       = "C16/keyrange/store-lexicographic-vs-memory-numeric"
	sigKeyrangeValues = "C16/keyrangevalues/store-lexicographic-vs-memory-numeric"
	sigIntegralFloat  = "C16/POST-key/stamps-change-on-identical-value/integral-float"
	sigIntegralQuery  = "C16/query/memory-differs-from-store/integral-float"
	sigSchemaDel      = "C16/json_schema/enforced-after-delete"
	sigQueryPanic     = "C16/query/panic"
)

// ---------------------------------------------------------------- case

type njQuery struct {
	Ors    [][]model.NJCond `json:"ors"`
	AsList bool             `json:"as_list,omitempty"` // a single query sent as a one-element list
	OnlyID bool             `json:"onlyid,omitempty"`
	Show   string           `json:"show,omitempty"`
	Fields []string         `json:"fields,omitempty"`
}

func (q njQuery) body() []byte {
	var objs []string
	for _, ands := range q.Ors {
		var parts []string
		for _, c := range ands {
			parts = append(parts, strconv.Quote(c.Field)+":"+c.Val)
		}
		objs = append(objs, "{"+strings.Join(parts, ",")+"}")
	}
	if len(objs) == 1 && !q.AsList {
		return []byte(objs[0])
	}
	return []byte("[" + strings.Join(objs, ",") + "]")
}

func optString(show string, fields []string, first string) string {
	var ps []string
	if first != "" {
		ps = append(ps, first)
	}
	if show != "" {
		ps = append(ps, "show="+show)
	}
	if len(fields) > 0 {
		ps = append(ps, "fields="+strings.Join(fields, ","))
	}
	if len(ps) == 0 {
		return ""
	}
	return "?" + strings.Join(ps, "&")
}

type njCompare struct {
	Queries []njQuery   `json:"queries"`
	Ranges  [][2]string `json:"ranges"`
	Show    string      `json:"show,omitempty"`
	Fields  []string    `json:"fields,omitempty"`
	KeysStr bool        `json:"keys_as_strings,omitempty"` // GET keyvalues?json=true body as strings instead of ints
}

type njOp struct {
	Kind   string           `json:"kind"` // post postkvs delete advance compare schema schemadel
	Line   int              `json:"line,omitempty"`
	Upd    *model.NJUpdate  `json:"upd,omitempty"`
	KVs    []model.NJUpdate `json:"kvs,omitempty"`
	Body   int              `json:"body,omitempty"`    // delete: index into the existing ids (execution time)
	DelMax bool             `json:"del_max,omitempty"` // delete: the numerically largest existing id
	User   string           `json:"user,omitempty"`
	Schema string           `json:"schema,omitempty"` // json_schema schema schema_batch
	Doc    int              `json:"doc,omitempty"`
	Cmp    *njCompare       `json:"cmp,omitempty"`
}

type njCase struct {
	CondName      string    `json:"cond_name"`             // query-string name used for conditional fields
	SkipCounts    bool      `json:"skip_counts,omitempty"` // fields/counts comparison ignores the field names null-deleted on the master line
	LenientZero   bool      `json:"lenient_zero,omitempty"`
	StoreOrderLax bool      `json:"store_order_lax,omitempty"`
	Pool          []uint64  `json:"pool"`
	Ops           []njOp    `json:"ops"`
	Final         njCompare `json:"final"`
}

var schemaDocs = map[string][]string{
	"json_schema":  {`{"type":"object","properties":{"n":{"type":"integer"}}}`},
	"schema":       {`{"neutu":1,"fields":["a","b"]}`, `{"neutu":2}`},
	"schema_batch": {`{"batch":true}`, `{"batch":[1,2,3]}`},
}

// ---------------------------------------------------------------- execution state

type meta struct {
	user, time       string
	hasUser, hasTime bool
}

type lineState struct {
	leaf          string
	st            model.NJState
	obs           map[uint64]map[string]meta // last observed stamps per body/field
	explicitTime  map[uint64]map[string]bool // the field's current *_time was supplied by the caller (a past date)
	schema        bool                       // a json_schema is in force
	schemaDeleted bool
	nulls         int // null-deletes executed on this line
	exists        bool
}

func (l *lineState) clone() *lineState {
	n := &lineState{leaf: l.leaf, st: l.st.Clone(), obs: map[uint64]map[string]meta{}, explicitTime: map[uint64]map[string]bool{},
		schema: l.schema, schemaDeleted: l.schemaDeleted, exists: true}
	for id, m := range l.obs {
		n.obs[id] = map[string]meta{}
		for f, v := range m {
			n.obs[id][f] = v
		}
	}
	for id, m := range l.explicitTime {
		n.explicitTime[id] = map[string]bool{}
		for f, v := range m {
			n.explicitTime[id][f] = v
		}
	}
	return n
}

type snapshot struct {
	uuid string
	st   model.NJState
}

type exec struct {
	snaps   []snapshot
	c       njCase
	root    string
	lines   [2]*lineState
	nbranch int
	// classes observed while executing
	classes       map[string]bool
	perBodyWrites map[uint64]int // partial updates per body on the master line
	armed         bool           // a null-delete or replace happened after >=2 partial updates of the same body (master line)
	nontrivial    bool           // ... and a dual-path comparison followed
	requests      int64
	nulled        map[string]bool // fields null-deleted on the master line (their in-memory count is known to drift)
}

func (e *exec) class(s string) { e.classes[s] = true }

func (e *exec) do(method, url string, body []byte) drive.Resp {
	e.requests++
	return drive.Do(method, url, body)
}

// isPanic: the recover middleware answers 500 "Panic detected"; when the handler had already started the body (query
// writes "[" first) the status stays 200 and only the text tells.
func isPanic(r drive.Resp) bool {
	return r.IsPanic() || strings.Contains(string(r.Body), "Panic detected on request")
}

func isMeta(f string) bool { return strings.HasSuffix(f, "_user") || strings.HasSuffix(f, "_time") }

// decodeObj parses a JSON object keeping numbers exact.
func decodeObj(b []byte) (map[string]interface{}, error) {
	dec := json.NewDecoder(strings.NewReader(string(b)))
	dec.UseNumber()
	var m map[string]interface{}
	if err := dec.Decode(&m); err != nil {
		return nil, err
	}
	return m, nil
}

func decodeAny(b []byte) (interface{}, error) {
	dec := json.NewDecoder(strings.NewReader(string(b)))
	dec.UseNumber()
	var v interface{}
	if err := dec.Decode(&v); err != nil {
		return nil, err
	}
	return v, nil
}

// schemaVerdict: +1 the write must be accepted, -1 must be rejected, 0 not specified.
func schemaVerdict(active bool, u model.NJUpdate) int {
	if !active {
		return 1
	}
	v := 1
	for _, f := range u.Fields {
		if f.Name != "n" {
			continue
		}
		raw := strings.TrimSpace(f.Val)
		switch {
		case raw == "null" || model.NJIsIntegralFloat(raw):
			v = 0
		default:
			c, err := model.NJCanon(raw)
			if err != nil {
				return 0
			}
			if strings.HasPrefix(c, "#") && !strings.Contains(c, "/") {
				// an integer
			} else {
				return -1
			}
		}
	}
	return v
}

func (e *exec) writeURL(l *lineState, u model.NJUpdate) string {
	url := fmt.Sprintf("node/%s/%s/key/%d?u=%s", l.leaf, inst, u.Body, u.User)
	if u.Replace {
		url += "&replace=true"
	}
	if len(u.Cond) > 0 {
		url += "&" + e.c.CondName + "=" + strings.Join(u.Cond, ",")
	}
	return url
}

// readBack reads key/<id>?show=all at the line's leaf and checks it against the model and the stamp expectations.
func (e *exec) readBack(l *lineState, li int, id uint64, prefix string, u *model.NJUpdate, exp map[string]model.NJExpect, before model.NJBody, existed bool) error {
	r := e.do("GET", fmt.Sprintf("node/%s/%s/key/%d?show=all", l.leaf, inst, id), nil)
	if isPanic(r) {
		return stats.Violf("C16/GET-key/panic", "%s", r)
	}
	want, ok := l.st[id]
	path := "memory"
	if li == 1 {
		path = "store"
	}
	if !ok {
		if r.Code != 404 {
			return stats.Violf(prefix+"/still-readable/"+path, "body %d should be absent at %s, got %s", id, l.leaf, r)
		}
		return nil
	}
	if r.Code != 200 {
		return stats.Violf(prefix+"/not-readable-after-write/"+path, "body %d: %s", id, r)
	}
	got, err := decodeObj(r.Body)
	if err != nil {
		return stats.Violf(prefix+"/bad-json/"+path, "body %d: %v: %s", id, err, r)
	}
	if _, bad := got["bodyid_user"]; bad {
		return stats.Violf(prefix+"/bodyid-has-meta-field", "body %d: %s", id, r)
	}
	if _, bad := got["bodyid_time"]; bad {
		return stats.Violf(prefix+"/bodyid-has-meta-field", "body %d: %s", id, r)
	}
	if bid, ok := got["bodyid"]; !ok || model.NJCanonValue(bid) != "#"+strconv.FormatUint(id, 10) {
		return stats.Violf(prefix+"/bodyid-wrong", "body %d: %s", id, r)
	}
	desc := func() string {
		s := ""
		if u != nil {
			s = fmt.Sprintf("request %s (user %s replace %v conditional %v); ", u.JSON(), u.User, u.Replace, u.Cond)
		}
		return fmt.Sprintf("%sbefore (model) %v; after (server, %s path) %s", s, before, path, r.Body)
	}
	mentioned := map[string]model.NJField{}
	if u != nil {
		for _, f := range u.Fields {
			mentioned[f.Name] = f
		}
	}
	// R1: values
	for f, v := range got {
		if f == "bodyid" || isMeta(f) {
			continue
		}
		w, ok := want[f]
		if !ok {
			sig := prefix + "/unexpected-field"
			if mf, m := mentioned[f]; m && strings.TrimSpace(mf.Val) == "null" {
				sig = prefix + "/null-did-not-remove-field"
			} else if u != nil && u.Replace {
				sig = prefix + "/replace-kept-unmentioned-field"
			}
			return stats.Violf(sig, "field %q; %s", f, desc())
		}
		if c := model.NJCanonValue(v); c != w.Canon {
			sig := prefix + "/wrong-value"
			if _, m := mentioned[f]; !m {
				sig = prefix + "/unmentioned-field-changed"
			} else if u != nil && !u.Replace {
				for _, cf := range u.Cond {
					if cf == f {
						if _, had := before[f]; had {
							sig = sigCondParam
							if e.c.CondName != "conditional" {
								sig = prefix + "/conditional-field-overwritten"
							}
						}
					}
				}
			}
			return stats.Violf(sig, "field %q is %s, model says %s; %s", f, c, w.Canon, desc())
		}
	}
	for f := range want {
		if _, ok := got[f]; !ok {
			sig := prefix + "/mentioned-field-missing"
			if _, m := mentioned[f]; !m {
				sig = prefix + "/unmentioned-field-lost"
			}
			return stats.Violf(sig, "field %q; %s", f, desc())
		}
	}
	// stamps
	newObs := map[string]meta{}
	for f := range want {
		var m meta
		if s, ok := got[f+"_user"].(string); ok {
			m.user, m.hasUser = s, true
		}
		if s, ok := got[f+"_time"].(string); ok {
			m.time, m.hasTime = s, true
		}
		newObs[f] = m
	}
	newExplicit := map[string]bool{}
	for f := range want {
		ex, ok := exp[f]
		old := l.obs[id][f]
		cur := newObs[f]
		wasExplicit := l.explicitTime[id][f]
		if !ok {
			newExplicit[f] = wasExplicit
			continue
		}
		switch ex.Stamp {
		case model.StampUnchanged:
			newExplicit[f] = wasExplicit
			if old != cur {
				sig := prefix + "/stamps-change-on-identical-value"
				if _, m := mentioned[f]; !m {
					sig = prefix + "/stamps-change-on-unmentioned-field"
				} else if model.NJIsIntegralFloat(want[f].Raw) {
					sig = sigIntegralFloat
				}
				return stats.Violf(sig, "field %q (%s): stamps were user=%q time=%q, now user=%q time=%q; %s", f, ex.Why, old.user, old.time, cur.user, cur.time, desc())
			}
		case model.StampChanged:
			if bv, had := before[f]; had && siblings(bv.Raw, want[f].Raw) {
				e.class("print-equal-sibling-update")
				if old.hasUser && old.user != ex.User {
					e.class("print-equal-sibling-update/by-different-user")
				}
			}
			if !cur.hasUser || cur.user != ex.User {
				return stats.Violf(prefix+"/wrong-user-stamp", "field %q (%s): %s_user=%q (present %v), want %q; %s", f, ex.Why, f, cur.user, cur.hasUser, ex.User, desc())
			}
			if ex.Time != nil {
				newExplicit[f] = true
				if !cur.hasTime || cur.time != *ex.Time {
					return stats.Violf(prefix+"/explicit-time-not-kept", "field %q: %s_time=%q, want %q; %s", f, f, cur.time, *ex.Time, desc())
				}
			} else {
				if !cur.hasTime || cur.time == "" {
					return stats.Violf(prefix+"/no-time-stamp", "field %q (%s): no %s_time; %s", f, ex.Why, f, desc())
				}
				if wasExplicit && old.hasTime && cur.time == old.time {
					// the previous stamp was a caller-supplied past date, so "the current time" cannot equal it
					return stats.Violf(prefix+"/time-stamp-not-updated-on-change", "field %q (%s): %s_time still %q; %s", f, ex.Why, f, cur.time, desc())
				}
			}
		default:
			// not specified: remember whether the stamp now is a caller-supplied one
			if mf, m := mentioned[f]; m && mf.Time != nil && cur.time == *mf.Time {
				newExplicit[f] = true
			} else if cur.time == old.time {
				newExplicit[f] = wasExplicit
			}
		}
	}
	l.obs[id] = newObs
	l.explicitTime[id] = newExplicit
	return nil
}

func (e *exec) applyWrite(l *lineState, li int, u model.NJUpdate, prefix string, post func() drive.Resp) (accepted bool, err error) {
	after, _, cls, aerr := l.st.Apply(u)
	if aerr != nil {
		return false, fmt.Errorf("model: %v", aerr)
	}
	verdict := schemaVerdict(l.schema, u)
	r := post()
	if isPanic(r) {
		return false, stats.Violf(prefix+"/panic", "%s: %s", u.JSON(), r)
	}
	switch {
	case verdict > 0 && !r.OK():
		sig := prefix + "/refused"
		if l.schemaDeleted && !l.schema {
			sig = sigSchemaDel
		}
		return false, stats.Violf(sig, "%s (user %s): %s", u.JSON(), u.User, r)
	case verdict < 0 && r.OK():
		return false, stats.Violf("C16/json_schema/invalid-write-accepted", "%s accepted although the posted json_schema types n as integer", u.JSON())
	}
	if !r.OK() {
		e.class("schema/write-rejected")
		return false, nil
	}
	if li == 0 {
		for _, f := range u.Fields {
			if _, had := l.st[u.Body][f.Name]; had && strings.TrimSpace(f.Val) == "null" {
				e.nulled[f.Name] = true
			}
		}
	}
	l.st[u.Body] = after
	for _, c := range cls {
		e.class(c)
	}
	if li == 0 {
		hit := false
		for _, c := range cls {
			if c == "null-delete" {
				l.nulls++
				hit = true
			}
			if c == "replace" {
				hit = true
			}
		}
		if hit && e.perBodyWrites[u.Body] >= 2 {
			e.armed = true
		}
		if !u.Replace {
			e.perBodyWrites[u.Body]++
		}
	}
	if len(u.Cond) > 0 {
		e.class("conditional")
	}
	return true, nil
}

func (e *exec) ensureSide() error {
	if e.lines[1] != nil {
		return nil
	}
	m := e.lines[0]
	if err := drive.Commit(m.leaf); err != nil {
		return fmt.Errorf("commit: %v", err)
	}
	e.nbranch++
	b, err := drive.Branch(m.leaf, fmt.Sprintf("side%d", e.nbranch))
	if err != nil {
		return fmt.Errorf("branch: %v", err)
	}
	child, err := drive.NewVersion(m.leaf)
	if err != nil {
		return fmt.Errorf("newversion: %v", err)
	}
	side := m.clone()
	side.leaf = b
	m.leaf = child
	e.lines[1] = side
	e.class("branch")
	return nil
}

func (e *exec) run() error {
	root, err := drive.NewRepo()
	if err != nil {
		return err
	}
	e.root = root
	if err := drive.NewInstance(root, "neuronjson", inst, nil); err != nil {
		return err
	}
	e.lines[0] = &lineState{leaf: root, st: model.NJState{}, obs: map[uint64]map[string]meta{}, explicitTime: map[uint64]map[string]bool{}, exists: true}
	for i, op := range e.c.Ops {
		what := fmt.Sprintf("op %d (%s)", i, op.Kind)
		li := op.Line % 2
		if op.Kind == "compare" || op.Kind == "reopen" {
			li = 0
		}
		if li == 1 {
			if err := e.ensureSide(); err != nil {
				return fmt.Errorf("%s: %v", what, err)
			}
		}
		l := e.lines[li]
		switch op.Kind {
		case "post":
			u := *op.Upd
			before, existed := l.st[u.Body]
			_, exp, _, _ := l.st.Apply(u)
			ok, err := e.applyWrite(l, li, u, "C16/POST-key", func() drive.Resp { return e.do("POST", e.writeURL(l, u), u.JSON()) })
			if err != nil {
				return err
			}
			if !ok {
				exp = nil
			}
			var up *model.NJUpdate
			if ok {
				up = &u
			}
			if err := e.readBack(l, li, u.Body, "C16/POST-key", up, exp, before, existed); err != nil {
				return err
			}
		case "postkvs":
			var kvs dvidproto.KeyValues
			replace := false
			user := op.User
			for _, u := range op.KVs {
				kvs.Kvs = append(kvs.Kvs, &dvidproto.KeyValue{Key: strconv.FormatUint(u.Body, 10), Value: u.JSON()})
				replace = u.Replace
			}
			ser, err := pb.Marshal(&kvs)
			if err != nil {
				return err
			}
			url := fmt.Sprintf("node/%s/%s/keyvalues?u=%s", l.leaf, inst, user)
			if replace {
				url += "&replace=true"
			}
			// the batch is documented as "each POSTed neuron annotation is handled in same way as described in POST /key";
			// only batches whose every element must be accepted are generated against an active schema (see generator), so
			// the whole batch has one verdict.
			type pend struct {
				u       model.NJUpdate
				before  model.NJBody
				existed bool
				exp     map[string]model.NJExpect
			}
			var ps []pend
			verdict := 1
			for _, u := range op.KVs {
				if v := schemaVerdict(l.schema, u); v < verdict {
					verdict = v
				}
			}
			r := e.do("POST", url, ser)
			if isPanic(r) {
				return stats.Violf("C16/POST-keyvalues/panic", "%s", r)
			}
			if verdict > 0 && !r.OK() {
				sig := "C16/POST-keyvalues/refused"
				if l.schemaDeleted && !l.schema {
					sig = sigSchemaDel
				}
				return stats.Violf(sig, "%d annotations: %s", len(op.KVs), r)
			}
			if verdict <= 0 {
				// a batch that may stop half way is not modelled: re-synchronise the model from the server
				for _, u := range op.KVs {
					if err := e.resync(l, u.Body); err != nil {
						return err
					}
				}
				e.class("postkvs/unspecified-outcome")
				continue
			}
			for _, u := range op.KVs {
				before, existed := l.st[u.Body]
				_, exp, _, _ := l.st.Apply(u)
				if _, err := e.applyWrite(l, li, u, "C16/POST-keyvalues", func() drive.Resp { return r }); err != nil {
					return err
				}
				ps = append(ps, pend{u, before, existed, exp})
			}
			for _, p := range ps {
				u := p.u
				if err := e.readBack(l, li, u.Body, "C16/POST-keyvalues", &u, p.exp, p.before, p.existed); err != nil {
					return err
				}
			}
			e.class("postkvs")
		case "delete":
			ids := l.st.IDs()
			var id uint64
			switch {
			case len(ids) == 0:
				id = e.c.Pool[op.Body%len(e.c.Pool)]
			case op.DelMax:
				id = ids[len(ids)-1]
			default:
				id = ids[op.Body%len(ids)]
			}
			_, existed := l.st[id]
			r := e.do("DELETE", fmt.Sprintf("node/%s/%s/key/%d?u=%s", l.leaf, inst, id, op.User), nil)
			if isPanic(r) {
				return stats.Violf("C16/DELETE-key/panic", "%s", r)
			}
			if existed && !r.OK() {
				return stats.Violf("C16/DELETE-key/refused", "body %d: %s", id, r)
			}
			if existed {
				e.class("delete-key")
				if li == 0 && len(ids) > 1 && id != ids[len(ids)-1] {
					e.class("delete-key/not-largest-id")
				}
			} else {
				e.class("delete-key/absent")
			}
			delete(l.st, id)
			delete(l.obs, id)
			delete(l.explicitTime, id)
			if li == 0 {
				delete(e.perBodyWrites, id)
			}
			if err := e.readBack(l, li, id, "C16/DELETE-key", nil, nil, nil, existed); err != nil {
				return err
			}
		case "advance":
			if err := drive.Commit(l.leaf); err != nil {
				return fmt.Errorf("%s: %v", what, err)
			}
			child, err := drive.NewVersion(l.leaf)
			if err != nil {
				return fmt.Errorf("%s: %v", what, err)
			}
			if li == 0 {
				e.snaps = append(e.snaps, snapshot{uuid: l.leaf, st: l.st.Clone()})
			}
			l.leaf = child
			e.class("advance")
		case "schema":
			docs := schemaDocs[op.Schema]
			doc := docs[op.Doc%len(docs)]
			url := fmt.Sprintf("node/%s/%s/%s?u=%s", l.leaf, inst, op.Schema, op.User)
			r := e.do("POST", url, []byte(doc))
			if isPanic(r) {
				return stats.Violf("C16/POST-schema/panic", "%s", r)
			}
			if !r.OK() {
				return stats.Violf("C16/POST-schema/refused", "%s: %s", op.Schema, r)
			}
			g := e.do("GET", url, nil)
			if g.Code != 200 || string(g.Body) != doc {
				return stats.Violf("C16/GET-schema/differs-from-posted", "%s posted %s, got %s", op.Schema, doc, g)
			}
			if op.Schema == "json_schema" {
				l.schema = true
				e.class("schema/json_schema")
			} else {
				e.class("schema/neutu")
			}
		case "schemadel":
			url := fmt.Sprintf("node/%s/%s/%s?u=%s", l.leaf, inst, op.Schema, op.User)
			r := e.do("DELETE", url, nil)
			if isPanic(r) {
				return stats.Violf("C16/DELETE-schema/panic", "%s", r)
			}
			if !r.OK() {
				return stats.Violf("C16/DELETE-schema/refused", "%s: %s", op.Schema, r)
			}
			g := e.do("GET", url, nil)
			if g.Code == 200 {
				return stats.Violf("C16/DELETE-schema/still-readable", "%s: %s", op.Schema, g)
			}
			if op.Schema == "json_schema" {
				if l.schema {
					l.schemaDeleted = true
					e.class("schema/json_schema-deleted")
				}
				l.schema = false
			}
		case "compare":
			if err := e.compare(*op.Cmp, what); err != nil {
				return err
			}
		case "reopen":
			if err := e.reopen(*op.Cmp, what); err != nil {
				return err
			}
		default:
			return fmt.Errorf("unknown op kind %q", op.Kind)
		}
	}
	return e.compare(e.c.Final, "final comparison")
}

// resync adopts the server's view of one body (used only where the outcome of a write is not specified).
func (e *exec) resync(l *lineState, id uint64) error {
	r := e.do("GET", fmt.Sprintf("node/%s/%s/key/%d?show=all", l.leaf, inst, id), nil)
	if isPanic(r) {
		return stats.Violf("C16/GET-key/panic", "%s", r)
	}
	if r.Code != 200 {
		delete(l.st, id)
		delete(l.obs, id)
		delete(l.explicitTime, id)
		return nil
	}
	got, err := decodeObj(r.Body)
	if err != nil {
		return stats.Violf("C16/GET-key/bad-json", "%v: %s", err, r)
	}
	b := model.NJBody{}
	o := map[string]meta{}
	for f, v := range got {
		if f == "bodyid" || isMeta(f) {
			continue
		}
		raw, _ := json.Marshal(v)
		b[f] = model.NJVal{Raw: string(raw), Canon: model.NJCanonValue(v)}
		var m meta
		if s, ok := got[f+"_user"].(string); ok {
			m.user, m.hasUser = s, true
		}
		if s, ok := got[f+"_time"].(string); ok {
			m.time, m.hasTime = s, true
		}
		o[f] = m
	}
	l.st[id] = b
	l.obs[id] = o
	delete(l.explicitTime, id)
	return nil
}

// ---------------------------------------------------------------- dual-path comparison

type reading struct {
	code  int
	norm  string   // canonical content ("" when not OK)
	order []string // body ids in response order, where the endpoint returns a list
	raw   drive.Resp
}

type readSpec struct {
	name    string // endpoint label used in signatures
	method  string
	url     string // after node/<uuid>/<inst>/
	body    []byte
	kind    string // strset objlist object counts raw pbkvs idlist fieldlist
	ordered bool   // the help text promises ascending body id order
	mustOK  bool
	query   *njQuery
	rng     *[2]string
}

func (e *exec) read(uuid string, s readSpec) (reading, error) {
	r := e.do(s.method, "node/"+uuid+"/"+inst+"/"+s.url, s.body)
	if isPanic(r) {
		sig := "C16/" + s.name + "/panic"
		return reading{}, stats.Violf(sig, "%s %s body %s: %s", s.method, s.url, s.body, r)
	}
	out := reading{code: r.Code, raw: r}
	if !r.OK() {
		if s.mustOK {
			return out, stats.Violf("C16/"+s.name+"/refused", "%s %s at %s: %s", s.method, s.url, uuid, r)
		}
		return out, nil
	}
	bad := func(err error) (reading, error) {
		return out, stats.Violf("C16/"+s.name+"/malformed-response", "%s %s at %s: %v: %s", s.method, s.url, uuid, err, r)
	}
	switch s.kind {
	case "raw":
		out.norm = string(r.Body)
	case "strset", "fieldlist":
		var xs []string
		if len(r.Body) > 0 && string(r.Body) != "null" {
			if err := json.Unmarshal(r.Body, &xs); err != nil {
				return bad(err)
			}
		}
		if s.kind == "fieldlist" && (e.c.LenientZero || e.c.SkipCounts) {
			var ys []string
			for _, x := range xs {
				if (x == "" && e.c.LenientZero) || (e.c.SkipCounts && e.nulled[x]) {
					continue
				}
				ys = append(ys, x)
			}
			xs = ys
		}
		out.order = append([]string(nil), xs...)
		sort.Strings(xs)
		out.norm = strings.Join(xs, "\n")
	case "counts":
		m, err := decodeObj(r.Body)
		if err != nil {
			return bad(err)
		}
		for k, v := range m {
			if (e.c.LenientZero && model.NJCanonValue(v) == "#0") || (e.c.SkipCounts && e.nulled[k]) {
				delete(m, k)
			}
		}
		out.norm = model.NJCanonValue(m)
	case "object":
		v, err := decodeAny(r.Body)
		if err != nil {
			return bad(err)
		}
		if _, ok := v.(map[string]interface{}); !ok {
			return bad(fmt.Errorf("not a JSON object"))
		}
		out.norm = model.NJCanonValue(v)
	case "objlist":
		v, err := decodeAny(r.Body)
		if err != nil {
			return bad(err)
		}
		if v == nil {
			v = []interface{}{}
		}
		xs, ok := v.([]interface{})
		if !ok {
			return bad(fmt.Errorf("not a JSON list"))
		}
		var lines []string
		for _, x := range xs {
			o, ok := x.(map[string]interface{})
			if !ok {
				return bad(fmt.Errorf("list element is not an object"))
			}
			id := "?"
			if b, ok := o["bodyid"]; ok {
				id = strings.TrimPrefix(model.NJCanonValue(b), "#")
			}
			out.order = append(out.order, id)
			lines = append(lines, id+" "+model.NJCanonValue(o))
		}
		sort.Strings(lines)
		out.norm = strings.Join(lines, "\n")
	case "idlist":
		v, err := decodeAny(r.Body)
		if err != nil {
			return bad(err)
		}
		xs, _ := v.([]interface{})
		var lines []string
		for _, x := range xs {
			id := strings.TrimPrefix(model.NJCanonValue(x), "#")
			out.order = append(out.order, id)
			lines = append(lines, id)
		}
		sort.Strings(lines)
		out.norm = strings.Join(lines, "\n")
	case "pbkvs":
		var kvs dvidproto.KeyValues
		if err := pb.Unmarshal(r.Body, &kvs); err != nil {
			return bad(err)
		}
		var lines []string
		for _, kv := range kvs.Kvs {
			val := "<none>"
			if len(kv.Value) > 0 {
				c, err := model.NJCanon(string(kv.Value))
				if err != nil {
					return bad(err)
				}
				val = c
			}
			lines = append(lines, kv.Key+" "+val)
			out.order = append(out.order, kv.Key)
		}
		sort.Strings(lines)
		out.norm = strings.Join(lines, "\n")
	}
	return out, nil
}

func ascending(ids []string) (bool, string) {
	for i := 1; i < len(ids); i++ {
		a, e1 := strconv.ParseUint(ids[i-1], 10, 64)
		b, e2 := strconv.ParseUint(ids[i], 10, 64)
		if e1 != nil || e2 != nil || a >= b {
			return false, fmt.Sprintf("%s before %s", ids[i-1], ids[i])
		}
	}
	return true, ""
}

// parseKey mirrors the documented reading of a range bound: a decimal body id; a bound that sorts after the digits
// (e.g. "a", as in the customary keyrange/0/a) stands for "no upper limit".
func parseKey(s string) uint64 {
	if s == "" {
		return 0
	}
	if s[0] > '9' {
		return ^uint64(0)
	}
	if s[0] < '0' {
		return 0
	}
	n, _ := strconv.ParseUint(s, 10, 64)
	return n
}

// rangeViews tells, for the body ids of this case, whether the numeric reading of [k1,k2] (what the in-memory path and
// upstream callers such as keyrange/10/2010 use) is contained in / equal to the lexicographic reading (what the help
// text words and the store path uses).
func rangeViews(pool []uint64, r [2]string) (numInLex, equal bool) {
	numInLex, equal = true, true
	lo, hi := parseKey(r[0]), parseKey(r[1])
	for _, id := range pool {
		k := strconv.FormatUint(id, 10)
		num := lo <= id && id <= hi
		lex := r[0] <= k && k <= r[1]
		if num && !lex {
			numInLex = false
		}
		if num != lex {
			equal = false
		}
	}
	return
}

// checkSnapshots: committed master versions keep answering with the content they were committed with, also while
// the in-memory head has moved on and been written to (head tracking across new versions).
func (e *exec) checkSnapshots(what string) error {
	from := len(e.snaps) - 2
	if from < 0 {
		from = 0
	}
	for _, sn := range e.snaps[from:] {
		r, err := e.read(sn.uuid, readSpec{name: "keys", method: "GET", url: "keys", kind: "strset", mustOK: true})
		if err != nil {
			return err
		}
		if err := e.checkKeys(r, sn.st, "old-committed", sn.uuid, what); err != nil {
			return err
		}
		for _, id := range e.c.Pool {
			r, err := e.read(sn.uuid, readSpec{name: "key", method: "GET", url: fmt.Sprintf("key/%d", id), kind: "object"})
			if err != nil {
				return err
			}
			if err := e.checkKey(r, sn.st, id, "old-committed", sn.uuid, what); err != nil {
				return err
			}
		}
	}
	return nil
}

// lexOrderDiffers: the ids' decimal strings (the store's key order) sort differently from their numeric order.
func lexOrderDiffers(ids []uint64) bool {
	for i := 1; i < len(ids); i++ { // ids ascending
		if strconv.FormatUint(ids[i-1], 10) > strconv.FormatUint(ids[i], 10) {
			return true
		}
	}
	return false
}

// reopen emulates a restart in-process: every read of a comparison point is taken on the (uncommitted, in-memory) master
// head, the datastore is closed and reopened with the upstream persistence-test helper datastore.CloseReopenTest()
// (storage.Shutdown, stores reopened, metadata reloaded, every data instance decoded afresh and Initialize()d, i.e.
// neuronjson rebuilds its in-memory head from the store with loadMemDB), and the same reads are taken again: a restart
// changes nothing observable.  Orders are compared where the answer's order is a function of the content (keys,
// keyrange, range/batch value lists, queries), not for all / fields (map iteration order).
//
// Faithfulness: CloseReopenTest does not restart the process, so package-level state survives; neuronjson keeps none
// (its state hangs off the *Data values, which are replaced), the request handlers look instances up through the
// reloaded manager.  No before/after difference was observed on the unchanged tree, so the comparison is unrestricted.
func (e *exec) reopen(cmp njCompare, what string) error {
	m := e.lines[0]
	specs := e.buildSpecs(cmp)
	before := make([]reading, len(specs))
	for i, s := range specs {
		r, err := e.read(m.leaf, s)
		if err != nil {
			return err
		}
		before[i] = r
	}
	datastore.CloseReopenTest()
	e.class("reopen")
	ids := m.st.IDs()
	if len(ids) >= 2 {
		e.class("reopen/>=2-bodies")
	}
	if lexOrderDiffers(ids) {
		e.class("reopen/lexicographic!=numeric-ids")
	}
	orderMatters := map[string]bool{"keys": true, "keyrange": true, "keyrangevalues": true, "keyvalues": true, "query": true}
	oracle := func() error {
		for i, s := range specs {
			r, err := e.read(m.leaf, s)
			if err != nil {
				return err
			}
			if s.ordered {
				if ok, why := ascending(r.order); !ok {
					return stats.Violf("C16/query/memory-path-not-ascending", "%s body %s at reopened head %s: %s (%s); %s", s.url, s.body, m.leaf, why, strings.Join(r.order, ","), what)
				}
			}
			if err := e.modelCheck(s, r, "memory-after-reopen", m.leaf, what+" (after reopen)"); err != nil {
				return err
			}
			b := before[i]
			same := b.code == r.code && b.norm == r.norm
			if same && orderMatters[s.name] && s.kind != "object" && strings.Join(b.order, ",") != strings.Join(r.order, ",") {
				return stats.Violf("C16/"+s.name+"/order-differs-after-reopen", "%s %s body %s at head %s; %s; before: %s ; after reopen: %s ; model ids %v",
					s.method, s.url, s.body, m.leaf, what, clip(b.raw.Body), clip(r.raw.Body), ids)
			}
			if !same {
				return stats.Violf("C16/"+s.name+"/differs-after-reopen", "%s %s body %s at head %s; %s; before: %d %s ; after reopen: %d %s ; model ids %v",
					s.method, s.url, s.body, m.leaf, what, b.code, clip(b.raw.Body), r.code, clip(r.raw.Body), ids)
			}
		}
		return nil
	}
	return drive.WithDeepRetry(e.root, oracle)
}

// buildSpecs lists the reads of one comparison point.
func (e *exec) buildSpecs(cmp njCompare) []readSpec {
	// keys to probe: every pool id (existing or not)
	probe := append([]uint64(nil), e.c.Pool...)
	var specs []readSpec
	add := func(s readSpec) { specs = append(specs, s) }
	add(readSpec{name: "keys", method: "GET", url: "keys", kind: "strset", mustOK: true})
	add(readSpec{name: "all", method: "GET", url: "all", kind: "objlist", mustOK: true})
	add(readSpec{name: "all", method: "GET", url: "all?show=all", kind: "objlist", mustOK: true})
	if cmp.Show != "" || len(cmp.Fields) > 0 {
		add(readSpec{name: "all", method: "GET", url: "all" + optString(cmp.Show, cmp.Fields, ""), kind: "objlist", mustOK: true})
	}
	add(readSpec{name: "fields", method: "GET", url: "fields", kind: "fieldlist", mustOK: true})
	add(readSpec{name: "fields-counts", method: "GET", url: "fields?counts=true", kind: "counts", mustOK: true})
	for _, id := range probe {
		add(readSpec{name: "key", method: "GET", url: fmt.Sprintf("key/%d", id), kind: "object"})
		add(readSpec{name: "key", method: "GET", url: fmt.Sprintf("key/%d?show=all", id), kind: "object"})
		add(readSpec{name: "HEAD-key", method: "HEAD", url: fmt.Sprintf("key/%d", id), kind: "raw"})
	}
	if len(probe) > 0 && (cmp.Show != "" || len(cmp.Fields) > 0) {
		add(readSpec{name: "key", method: "GET", url: fmt.Sprintf("key/%d%s", probe[0], optString(cmp.Show, cmp.Fields, "")), kind: "object"})
	}
	for i := range cmp.Ranges {
		rg := cmp.Ranges[i]
		add(readSpec{name: "keyrange", method: "GET", url: "keyrange/" + rg[0] + "/" + rg[1], kind: "strset", mustOK: true, rng: &rg})
		add(readSpec{name: "keyrangevalues", method: "GET", url: "keyrangevalues/" + rg[0] + "/" + rg[1] + optString(cmp.Show, cmp.Fields, "json=true"), kind: "object", mustOK: true, rng: &rg})
		add(readSpec{name: "keyrangevalues", method: "GET", url: "keyrangevalues/" + rg[0] + "/" + rg[1], kind: "pbkvs", mustOK: true, rng: &rg})
	}
	{
		var ks []string
		for _, id := range probe {
			if cmp.KeysStr {
				ks = append(ks, strconv.Quote(strconv.FormatUint(id, 10)))
			} else {
				ks = append(ks, strconv.FormatUint(id, 10))
			}
		}
		body := []byte("[" + strings.Join(ks, ",") + "]")
		add(readSpec{name: "keyvalues", method: "GET", url: "keyvalues" + optString(cmp.Show, cmp.Fields, "json=true"), body: body, kind: "object", mustOK: true})
		var keys dvidproto.Keys
		for _, id := range probe {
			keys.Keys = append(keys.Keys, strconv.FormatUint(id, 10))
		}
		ser, _ := pb.Marshal(&keys)
		add(readSpec{name: "keyvalues", method: "GET", url: "keyvalues", body: ser, kind: "pbkvs", mustOK: true})
	}
	for i := range cmp.Queries {
		q := cmp.Queries[i]
		kind := "objlist"
		first := ""
		if q.OnlyID {
			first = "onlyid=true"
		}
		justIDs := true
		for _, ands := range q.Ors {
			for _, c := range ands {
				if c.Field != "bodyid" {
					justIDs = false
				}
			}
		}
		if q.OnlyID && !justIDs {
			kind = "idlist" // a query on body ids alone answers with annotations whatever onlyid says (not specified): objlist
		}
		add(readSpec{name: "query", method: "GET", url: "query" + optString(q.Show, q.Fields, first), body: q.body(), kind: kind, ordered: true, mustOK: true, query: &q})
	}
	for _, s := range []string{"json_schema", "schema", "schema_batch"} {
		add(readSpec{name: "GET-" + s, method: "GET", url: s, kind: "raw"})
	}
	return specs
}

func (e *exec) compare(cmp njCompare, what string) error {
	m := e.lines[0]
	if err := e.checkSnapshots(what + " (earlier committed versions, before committing the head)"); err != nil {
		return err
	}
	if err := drive.Commit(m.leaf); err != nil {
		return fmt.Errorf("%s: commit: %v", what, err)
	}
	S := m.leaf
	M, err := drive.NewVersion(S)
	if err != nil {
		return fmt.Errorf("%s: newversion: %v", what, err)
	}
	e.nbranch++
	B, err := drive.Branch(S, fmt.Sprintf("cmp%d", e.nbranch))
	if err != nil {
		return fmt.Errorf("%s: branch: %v", what, err)
	}
	m.leaf = M
	e.snaps = append(e.snaps, snapshot{uuid: S, st: m.st.Clone()})
	if e.armed {
		e.nontrivial = true
	}
	hasIntegral := false
	for _, b := range m.st {
		for _, v := range b {
			if model.NJIsIntegralFloat(v.Raw) {
				hasIntegral = true
			}
		}
	}
	ids := m.st.IDs()
	specs := e.buildSpecs(cmp)

	oracle := func() error {
		for _, s := range specs {
			rs, err := e.read(S, s)
			if err != nil {
				return err
			}
			rm, err := e.read(M, s)
			if err != nil {
				return err
			}
			rb, err := e.read(B, s)
			if err != nil {
				return err
			}
			// promised order
			if s.ordered {
				if ok, why := ascending(rm.order); !ok {
					return stats.Violf("C16/query/memory-path-not-ascending", "%s body %s at head %s: %s (%s); %s", s.url, s.body, M, why, strings.Join(rm.order, ","), what)
				}
				if !e.c.StoreOrderLax {
					for _, x := range []reading{rs, rb} {
						if ok, why := ascending(x.order); !ok {
							return stats.Violf(sigQueryOrder, "%s body %s at committed %s: %s (order %s); the help text promises ascending body id; %s", s.url, s.body, S, why, strings.Join(x.order, ","), what)
						}
					}
				}
			}
			// model: keys, key/<id>, all, plain queries
			if err := e.modelCheck(s, rs, "store", S, what); err != nil {
				return err
			}
			if err := e.modelCheck(s, rm, "memory", M, what); err != nil {
				return err
			}
			if err := e.modelCheck(s, rb, "store", B, what); err != nil {
				return err
			}
			// differential
			for _, pair := range []struct {
				x    reading
				node string
				name string
			}{{rs, S, "committed parent (store path)"}, {rb, B, "side branch (store path)"}} {
				if pair.x.code == rm.code && pair.x.norm == rm.norm {
					continue
				}
				sig := "C16/" + s.name + "/memory-differs-from-store"
				switch {
				case s.name == "fields" || s.name == "fields-counts":
					sig = "C16/fields/memory-differs-from-store"
					if strings.Contains(rm.norm, ":#0") || strings.HasPrefix(rm.norm, "\n") || (s.kind == "fieldlist" && len(rm.order) > 0 && contains(rm.order, "")) {
						sig = sigZeroCount
					} else if m.nulls > 0 {
						sig = sigNullDrift
					}
				case s.name == "query" && s.query != nil && len(s.query.Fields) > 0:
					sig = sigQueryFields
				case s.name == "query" && hasIntegral:
					sig = sigIntegralQuery
				case s.name == "keyrange" && s.rng != nil:
					if sub, _ := rangeViews(e.c.Pool, *s.rng); !sub {
						sig = sigKeyrange
					}
				case s.name == "keyrangevalues" && s.rng != nil:
					if _, eq := rangeViews(e.c.Pool, *s.rng); !eq {
						sig = sigKeyrangeValues
					}
				}
				return stats.Violf(sig, "%s %s body %s; %s; head %s (memory path): %d %s ; %s %s: %d %s ; model ids %v",
					s.method, s.url, s.body, what, M, rm.code, clip(rm.raw.Body), pair.name, pair.node, pair.x.code, clip(pair.x.raw.Body), ids)
			}
		}
		return nil
	}
	if err := drive.WithDeepRetry(e.root, oracle); err != nil {
		return err
	}
	e.class("compare")
	// side line against its model (store path only)
	if sl := e.lines[1]; sl != nil {
		r, err := e.read(sl.leaf, readSpec{name: "keys", method: "GET", url: "keys", kind: "strset", mustOK: true})
		if err != nil {
			return err
		}
		if err := e.checkKeys(r, sl.st, "store", sl.leaf, what+" (side branch)"); err != nil {
			return err
		}
		for _, id := range e.c.Pool {
			r, err := e.read(sl.leaf, readSpec{name: "key", method: "GET", url: fmt.Sprintf("key/%d", id), kind: "object"})
			if err != nil {
				return err
			}
			if err := e.checkKey(r, sl.st, id, "store", sl.leaf, what+" (side branch)"); err != nil {
				return err
			}
		}
	}
	return nil
}

func contains(xs []string, s string) bool {
	for _, x := range xs {
		if x == s {
			return true
		}
	}
	return false
}

func clip(b []byte) string {
	if len(b) > 700 {
		return string(b[:700]) + "..."
	}
	return string(b)
}

func (e *exec) checkKeys(r reading, st model.NJState, path, node, what string) error {
	var want []string
	for _, id := range st.IDs() {
		want = append(want, strconv.FormatUint(id, 10))
	}
	sort.Strings(want)
	if r.norm != strings.Join(want, "\n") {
		sig := "C16/keys/differs-from-model/" + path
		if path == "memory" {
			for _, k := range r.order {
				id, _ := strconv.ParseUint(k, 10, 64)
				if _, ok := st[id]; !ok {
					sig = sigDeleteID
				}
			}
		}
		return stats.Violf(sig, "keys at %s (%s path): %s, model %v; %s", node, path, clip(r.raw.Body), want, what)
	}
	return nil
}

func (e *exec) checkKey(r reading, st model.NJState, id uint64, path, node, what string) error {
	b, ok := st[id]
	if !ok {
		if r.code == 200 {
			return stats.Violf("C16/key/absent-body-readable/"+path, "body %d at %s: %s; %s", id, node, clip(r.raw.Body), what)
		}
		return nil
	}
	if r.code != 200 {
		return stats.Violf("C16/key/body-not-readable/"+path, "body %d at %s: %d %s; %s", id, node, r.code, clip(r.raw.Body), what)
	}
	want := map[string]string{"bodyid": "#" + strconv.FormatUint(id, 10)}
	for f, v := range b {
		want[f] = v.Canon
	}
	got, err := decodeObj(r.raw.Body)
	if err != nil {
		return stats.Violf("C16/key/malformed-response", "%v", err)
	}
	for f, v := range got {
		if isMeta(f) {
			continue
		}
		if w, ok := want[f]; !ok || w != model.NJCanonValue(v) {
			return stats.Violf("C16/key/differs-from-model/"+path, "body %d field %q at %s: %s, model %v; %s", id, f, node, clip(r.raw.Body), b, what)
		}
	}
	for f := range want {
		if _, ok := got[f]; !ok {
			return stats.Violf("C16/key/differs-from-model/"+path, "body %d field %q missing at %s: %s, model %v; %s", id, f, node, clip(r.raw.Body), b, what)
		}
	}
	return nil
}

func (e *exec) modelCheck(s readSpec, r reading, path, node, what string) error {
	st := e.lines[0].st
	switch {
	case s.name == "keys":
		return e.checkKeys(r, st, path, node, what)
	case s.name == "key" && !strings.Contains(s.url, "?"):
		id, err := strconv.ParseUint(strings.TrimPrefix(s.url, "key/"), 10, 64)
		if err != nil {
			return nil
		}
		return e.checkKey(r, st, id, path, node, what)
	case s.name == "all" && s.url == "all":
		seen := map[string]bool{}
		for _, id := range r.order {
			n, err := strconv.ParseUint(id, 10, 64)
			if _, ok := st[n]; err != nil || !ok {
				return stats.Violf("C16/all/lists-absent-body/"+path, "body %s at %s: %s; model ids %v; %s", id, node, clip(r.raw.Body), st.IDs(), what)
			}
			if seen[id] {
				return stats.Violf("C16/all/duplicate-body/"+path, "body %s at %s: %s; %s", id, node, clip(r.raw.Body), what)
			}
			seen[id] = true
		}
		for id, b := range st {
			if len(b) > 0 && !seen[strconv.FormatUint(id, 10)] {
				return stats.Violf("C16/all/misses-body/"+path, "body %d at %s: %s; model %v; %s", id, node, clip(r.raw.Body), b, what)
			}
		}
	case s.name == "query" && s.query != nil:
		got := map[string]bool{}
		for _, id := range r.order {
			if got[id] {
				return stats.Violf("C16/query/duplicate-body/"+path, "%s at %s: %s; %s", s.body, node, clip(r.raw.Body), what)
			}
			got[id] = true
		}
		justIDs := true
		for _, ands := range s.query.Ors {
			for _, c := range ands {
				if c.Field != "bodyid" {
					justIDs = false
				}
			}
		}
		for id, b := range st {
			v := model.MatchQuery(id, b, s.query.Ors)
			k := strconv.FormatUint(id, 10)
			if v == model.MustInclude && !got[k] {
				return stats.Violf("C16/query/misses-matching-body/"+path, "query %s at %s misses body %d %v: %s; %s", s.body, node, id, b, clip(r.raw.Body), what)
			}
			if v == model.MustExclude && got[k] {
				return stats.Violf("C16/query/returns-non-matching-body/"+path, "query %s at %s returns body %d %v: %s; %s", s.body, node, id, b, clip(r.raw.Body), what)
			}
		}
		for k := range got {
			id, err := strconv.ParseUint(k, 10, 64)
			if _, ok := st[id]; (err != nil || !ok) && !justIDs {
				return stats.Violf("C16/query/returns-absent-body/"+path, "query %s at %s returns %q: %s; model ids %v; %s", s.body, node, k, clip(r.raw.Body), st.IDs(), what)
			}
		}
	}
	return nil
}

// ---------------------------------------------------------------- generator

var bodyPool = []uint64{1, 2, 3, 5, 9, 10, 11, 25, 30, 100, 200, 300, 1000, 2010, 9007199254740993, 18446744073709551615}
var fieldNames = []string{"a", "b", "c", "n", "type"}
var users = []string{"alice", "bob", "carol"}
var sentinelTimes = []string{"2020-01-01T00:00:00Z", "2019-05-05T05:05:05-04:00"}

var strVals = []string{`""`, `"a"`, `"ab"`, `"abc"`, `"0B"`, `"b"`, `"<x&y>"`, `"é\"q\\"`, `"re/x"`}
var intVals = []string{`0`, `1`, `23`, `-5`, `9007199254740993`, `18446744073709551615`, `-9007199254740993`}
var floatVals = []string{`0.5`, `-1.25`, `2.5e-3`, `6.25e-2`}
var integralFloatVals = []string{`3.0`, `1e3`, `1e21`, `[1.0,2]`, `{"x":2.0}`, `23.0`, `[3.0]`, `[2.0,1000]`}
var otherVals = []string{`true`, `false`, `[]`, `[1,2,3]`, `[9007199254740993]`, `["a","b"]`, `["ab"]`, `[1,"a"]`, `[[1],[2]]`, `[1.5,2.5]`, `[true,false]`,
	`{}`, `{"x":1}`, `{"x":{"y":[1,"z"]}}`, `{"k":"v","j":null}`}

// print-equal siblings: different JSON values whose Go renderings (fmt.Sprint of the decoded value) coincide.  A change
// between siblings is a change of the field's value, so the stamps must move to the writer.
var siblingFamilies = [][]string{
	{`12`, `"12"`}, {`23`, `"23"`}, {`-5`, `"-5"`}, {`0.5`, `"0.5"`}, {`true`, `"true"`},
	{`["a b"]`, `["a","b"]`, `"[a b]"`},
	{`[1,2]`, `"[1 2]"`, `["1","2"]`, `[1,"2"]`},
	{`{"x":1}`, `{"x":"1"}`, `"map[x:1]"`},
	{`[]`, `"[]"`}, {`{}`, `"map[]"`},
}

var siblingOf = func() map[string]int {
	m := map[string]int{}
	for i, f := range siblingFamilies {
		for _, v := range f {
			m[v] = i
		}
	}
	return m
}()

func siblings(a, b string) bool {
	fa, oka := siblingOf[a]
	fb, okb := siblingOf[b]
	return oka && okb && fa == fb && a != b
}

type genCtx struct {
	t             *rapid.T
	noIntFl       bool
	last          map[string]string // "body/field" -> last raw value posted in this case (for repeats)
	pool          []uint64
	noSchDel      bool
	homoLists     bool
	noIntFlRepeat bool
	line          int
	delMax        bool
}

func (g *genCtx) value(field string, body uint64) string {
	v := g.value1(field, body)
	if g.noIntFlRepeat && model.NJIsIntegralFloat(v) && g.last[fmt.Sprintf("%d/%d/%s", g.line, body, field)] == v {
		// known finding: an identical integral float re-posted changes the stamps; post a different value instead
		v = rapid.SampledFrom(floatVals).Draw(g.t, "f-instead")
	}
	return v
}

func (g *genCtx) value1(field string, body uint64) string {
	t := g.t
	key := fmt.Sprintf("%d/%d/%s", g.line, body, field)
	if prev, ok := g.last[key]; ok && rapid.IntRange(0, 3).Draw(t, "repeat") == 0 {
		return prev
	}
	if prev, ok := g.last[key]; ok && field != "n" {
		if fam, isFam := siblingOf[prev]; isFam && rapid.IntRange(0, 2).Draw(t, "sibling") > 0 {
			// the next value of a field is often a print-equal sibling of its current one
			var others []string
			for _, v := range siblingFamilies[fam] {
				if v != prev {
					others = append(others, v)
				}
			}
			return rapid.SampledFrom(others).Draw(t, "sib")
		}
	}
	if field == "n" {
		switch rapid.IntRange(0, 5).Draw(t, "nkind") {
		case 0:
			return rapid.SampledFrom([]string{`"abc"`, `0.5`, `[1,2,3]`, `{"x":1}`, `true`}).Draw(t, "nbad")
		case 1:
			if !g.noIntFl {
				return rapid.SampledFrom([]string{`3.0`, `1e3`, `23.0`}).Draw(t, "nif")
			}
		}
		return rapid.SampledFrom(intVals).Draw(t, "nint")
	}
	switch rapid.IntRange(0, 12).Draw(t, "vkind") {
	case 10, 11, 12:
		fam := rapid.SampledFrom(siblingFamilies).Draw(t, "fam")
		return rapid.SampledFrom(fam).Draw(t, "fammember")
	case 0, 1, 2:
		return rapid.SampledFrom(strVals).Draw(t, "s")
	case 3, 4:
		return rapid.SampledFrom(intVals).Draw(t, "i")
	case 5:
		return rapid.SampledFrom(floatVals).Draw(t, "f")
	case 6:
		if !g.noIntFl {
			return rapid.SampledFrom(integralFloatVals).Draw(t, "if")
		}
		return rapid.SampledFrom(floatVals).Draw(t, "f")
	default:
		return rapid.SampledFrom(otherVals).Draw(t, "o")
	}
}

func (g *genCtx) subset(label string, from []string, min, max int) []string {
	perm := rapid.Permutation(from).Draw(g.t, label+"perm")
	if max > len(perm) {
		max = len(perm)
	}
	n := rapid.IntRange(min, max).Draw(g.t, label+"n")
	out := append([]string(nil), perm[:n]...)
	return out
}

func (g *genCtx) update(body uint64, allowCond bool) model.NJUpdate {
	t := g.t
	u := model.NJUpdate{Body: body, User: rapid.SampledFrom(users).Draw(t, "user")}
	names := g.subset("f", fieldNames, rapid.SampledFrom([]int{0, 1, 1, 1}).Draw(t, "minf"), 3)
	var nonNull []string
	for _, f := range names {
		fl := model.NJField{Name: f}
		_, wasSet := g.last[fmt.Sprintf("%d/%d/%s", g.line, body, f)]
		if (wasSet && rapid.IntRange(0, 2).Draw(t, "null-set") == 0) || (!wasSet && rapid.IntRange(0, 9).Draw(t, "null") == 0) {
			fl.Val = "null"
			delete(g.last, fmt.Sprintf("%d/%d/%s", g.line, body, f))
		} else {
			fl.Val = g.value(f, body)
			nonNull = append(nonNull, f)
			if rapid.IntRange(0, 7).Draw(t, "explicit") == 0 {
				if rapid.Bool().Draw(t, "xu") {
					s := "zed"
					fl.User = &s
				}
				if fl.User == nil || rapid.Bool().Draw(t, "xt") {
					s := rapid.SampledFrom(sentinelTimes).Draw(t, "xtime")
					fl.Time = &s
				}
			}
			g.last[fmt.Sprintf("%d/%d/%s", g.line, body, f)] = fl.Val
		}
		u.Fields = append(u.Fields, fl)
	}
	switch rapid.IntRange(0, 7).Draw(t, "mode") {
	case 0, 1:
		u.Replace = true
	case 2, 3:
		if allowCond && len(nonNull) > 0 {
			u.Cond = g.subset("cond", nonNull, 1, 2)
		}
	}
	return u
}

func (g *genCtx) cond(field string) model.NJCond {
	t := g.t
	c := model.NJCond{Field: field}
	scal := func() string {
		if field == "n" || rapid.IntRange(0, 2).Draw(t, "qint") == 0 {
			return rapid.SampledFrom(intVals).Draw(t, "qi")
		}
		return rapid.SampledFrom(strVals).Draw(t, "qs")
	}
	switch rapid.IntRange(0, 11).Draw(t, "ckind") {
	case 0, 1, 2, 3:
		c.Val = scal()
	case 4:
		a, b := scal(), scal()
		if g.homoLists && strings.HasPrefix(a, `"`) != strings.HasPrefix(b, `"`) {
			b = a
		}
		c.Val = "[" + a + "," + b + "]"
	case 5:
		c.Val = strconv.Quote("re/" + rapid.SampledFrom([]string{"^a", "^ab$", "^(a|0)", "^$", "^.*c"}).Draw(t, "re"))
	case 6:
		c.Val = strconv.Quote("re/" + rapid.SampledFrom([]string{"b", "B$", "x&", ".", "c|a"}).Draw(t, "reu"))
	case 7:
		c.Val = `"exists/1"`
	case 8:
		c.Val = `"exists/0"`
	case 9:
		c.Val = rapid.SampledFrom([]string{`["re/^a","b"]`, `["re/b$","0B"]`, `0.5`, `[1.5,2.5]`, `3`, `[2,3]`, `"x"`, `true`}).Draw(t, "qodd")
	case 10:
		if !g.noIntFl {
			c.Val = rapid.SampledFrom([]string{`1`, `2`, `3`, `1000`}).Draw(t, "qif")
		} else {
			c.Val = scal()
		}
	default:
		c.Val = scal()
	}
	return c
}

func (g *genCtx) query(noFields bool) njQuery {
	t := g.t
	var q njQuery
	switch rapid.IntRange(0, 9).Draw(t, "qshape") {
	case 0: // body ids alone (ascending, distinct)
		n := rapid.IntRange(1, 3).Draw(t, "nid")
		ids := append([]uint64(nil), g.pool...)
		sort.Slice(ids, func(i, j int) bool { return ids[i] < ids[j] })
		if n > len(ids) {
			n = len(ids)
		}
		start := rapid.IntRange(0, len(ids)-n).Draw(t, "idstart")
		var parts []string
		for _, id := range ids[start : start+n] {
			parts = append(parts, strconv.FormatUint(id, 10))
		}
		val := parts[0]
		if n > 1 || rapid.Bool().Draw(t, "idlist") {
			val = "[" + strings.Join(parts, ",") + "]"
		}
		q.Ors = [][]model.NJCond{{{Field: "bodyid", Val: val}}}
	default:
		nors := rapid.SampledFrom([]int{1, 1, 1, 2, 3}).Draw(t, "nors")
		for i := 0; i < nors; i++ {
			fs := g.subset("qf", fieldNames, 1, 2)
			var ands []model.NJCond
			for _, f := range fs {
				ands = append(ands, g.cond(f))
			}
			if rapid.IntRange(0, 7).Draw(t, "withid") == 0 {
				id := g.pool[rapid.IntRange(0, len(g.pool)-1).Draw(t, "qid")]
				ands = append(ands, model.NJCond{Field: "bodyid", Val: strconv.FormatUint(id, 10)})
			}
			q.Ors = append(q.Ors, ands)
		}
		q.AsList = rapid.Bool().Draw(t, "aslist")
	}
	q.OnlyID = rapid.IntRange(0, 3).Draw(t, "onlyid") == 0
	q.Show = rapid.SampledFrom([]string{"", "", "user", "time", "all"}).Draw(t, "qshow")
	if !noFields && rapid.IntRange(0, 3).Draw(t, "qfields") == 0 {
		q.Fields = g.subset("qfl", fieldNames, 1, 2)
	}
	return q
}

func (g *genCtx) compareSpec(noQueryFields, needSub, needEq bool) njCompare {
	t := g.t
	var c njCompare
	nq := rapid.IntRange(1, 4).Draw(t, "nq")
	for i := 0; i < nq; i++ {
		c.Queries = append(c.Queries, g.query(noQueryFields))
	}
	nr := rapid.IntRange(1, 2).Draw(t, "nr")
	for i := 0; i < nr; i++ {
		var r [2]string
		switch k := rapid.IntRange(0, 5).Draw(t, "rk"); {
		case k == 0:
			r = [2]string{"0", "a"}
		case k <= 2: // same number of digits
			r = rapid.SampledFrom([][2]string{{"0", "9"}, {"1", "2"}, {"2", "9"}, {"10", "25"}, {"10", "99"}, {"11", "11"}, {"100", "300"}, {"100", "999"}, {"1000", "2010"},
				{"9007199254740993", "9007199254740993"}, {"10000000000000000000", "18446744073709551615"}}).Draw(t, "rsame")
		default: // numeric ranges spanning several digit counts, as upstream callers use them (keyrange/0/2100, keyrange/10/2010)
			r = rapid.SampledFrom([][2]string{{"0", "2100"}, {"10", "2010"}, {"2", "10"}, {"0", "100"}, {"3", "300"}, {"25", "a"}, {"1", "18446744073709551615"}, {"9", "11"}}).Draw(t, "rmixed")
		}
		// known findings: keep only ranges on which the numeric and the lexicographic reading agree for this case's ids
		if sub, eq := rangeViews(g.pool, r); (needSub && !sub) || (needEq && !eq) {
			r = [2]string{"0", "a"}
		}
		c.Ranges = append(c.Ranges, r)
	}
	c.Show = rapid.SampledFrom([]string{"", "user", "time", "all"}).Draw(t, "cshow")
	if rapid.Bool().Draw(t, "cfields") {
		c.Fields = g.subset("cfl", fieldNames, 1, 3)
	}
	c.KeysStr = rapid.Bool().Draw(t, "keysstr")
	return c
}

func genCase(t *rapid.T) njCase {
	g := &genCtx{t: t, last: map[string]string{}}
	c := njCase{CondName: "conditional"}
	if stats.IsKnown(sigCondParam) {
		c.CondName = "conditionals"
		stats.Excluded(sigCondParam)
	}
	if stats.IsKnown(sigIntegralFloat) {
		g.noIntFlRepeat = true
		stats.Excluded(sigIntegralFloat)
	}
	if stats.IsKnown(sigIntegralQuery) {
		g.noIntFl = true
		stats.Excluded(sigIntegralQuery)
	}
	if stats.IsKnown(sigSchemaDel) {
		g.noSchDel = true
		stats.Excluded(sigSchemaDel)
	}
	if stats.IsKnown(sigQueryPanic) {
		g.homoLists = true
		stats.Excluded(sigQueryPanic)
	}
	if stats.IsKnown(sigDeleteID) {
		g.delMax = true
		stats.Excluded(sigDeleteID)
	}
	if stats.IsKnown(sigZeroCount) {
		c.LenientZero = true
		stats.Excluded(sigZeroCount)
	}
	if stats.IsKnown(sigQueryOrder) {
		c.StoreOrderLax = true
		stats.Excluded(sigQueryOrder)
	}
	noQueryFields := stats.IsKnown(sigQueryFields)
	if noQueryFields {
		stats.Excluded(sigQueryFields)
	}
	needSub := stats.IsKnown(sigKeyrange)
	if needSub {
		stats.Excluded(sigKeyrange)
	}
	needEq := stats.IsKnown(sigKeyrangeValues)
	if needEq {
		stats.Excluded(sigKeyrangeValues)
	}
	// pool of body ids of this case: few, so that bodies are updated repeatedly
	// ... and of at least two different digit counts, so that the store's key order (decimal strings) differs from the numeric one
	perm := rapid.Permutation(bodyPool).Draw(t, "poolperm")
	npool := rapid.IntRange(2, 5).Draw(t, "npool")
	c.Pool = []uint64{perm[0]}
	second := -1
	for i, id := range perm[1:] {
		pair := []uint64{perm[0], id}
		if id < perm[0] {
			pair = []uint64{id, perm[0]}
		}
		if lexOrderDiffers(pair) {
			second = i
			break
		}
	}
	for i, id := range perm[1:] {
		if (second < 0 && len(strconv.FormatUint(id, 10)) != len(strconv.FormatUint(perm[0], 10))) || i == second {
			c.Pool = append(c.Pool, id)
			perm = append(append([]uint64{}, perm[1:i+1]...), perm[i+2:]...)
			break
		}
	}
	c.Pool = append(c.Pool, perm[:npool-2]...)
	g.pool = c.Pool
	nops := rapid.IntRange(4, 20).Draw(t, "nops")
	focus := c.Pool[0] // most writes go to one body so that >=2 partial updates precede a null-delete / replace
	hasNullMaster := false
	sideSeen := false
	// one case in six restarts the server once in the second half of the history (the reopen re-initialises every
	// instance of the test store, so it is kept to at most one per case); usually two bodies whose ids sort
	// differently as strings and as numbers are written just before it
	reopenAt := -1
	if rapid.IntRange(0, 5).Draw(t, "withreopen") == 0 {
		reopenAt = rapid.IntRange(nops/2, nops-1).Draw(t, "reopenat")
	}
	for i := 0; i < nops; i++ {
		if i == reopenAt {
			g.line = 0
			if rapid.IntRange(0, 2).Draw(t, "reopenseed") > 0 {
				seed := njOp{Kind: "postkvs", User: rapid.SampledFrom(users).Draw(t, "seeduser")}
				for _, b := range c.Pool[:2] {
					u := g.update(b, false)
					u.Replace, u.Cond, u.User = false, nil, seed.User
					if len(u.Fields) == 0 {
						u.Fields = []model.NJField{{Name: "a", Val: `"ab"`}}
						g.last[fmt.Sprintf("%d/%d/%s", g.line, b, "a")] = `"ab"`
					}
					for _, f := range u.Fields {
						if f.Val == "null" {
							hasNullMaster = true
						}
					}
					seed.KVs = append(seed.KVs, u)
				}
				c.Ops = append(c.Ops, seed)
			}
			cs := g.compareSpec(noQueryFields, needSub, needEq)
			c.Ops = append(c.Ops, njOp{Kind: "reopen", Cmp: &cs})
		}
		kind := rapid.SampledFrom([]string{"post", "post", "post", "post", "post", "post", "post", "postkvs", "delete", "advance", "compare", "schema", "schemadel"}).Draw(t, "kind")
		op := njOp{Kind: kind, User: rapid.SampledFrom(users).Draw(t, "opuser")}
		if rapid.IntRange(0, 5).Draw(t, "side") == 0 {
			op.Line = 1
		}
		g.line = op.Line
		if op.Line == 1 && !sideSeen {
			// the side branch starts as a copy of the master line
			sideSeen = true
			for k, v := range g.last {
				if strings.HasPrefix(k, "0/") {
					g.last["1/"+strings.TrimPrefix(k, "0/")] = v
				}
			}
		}
		pick := func(label string) uint64 {
			if rapid.IntRange(0, 3).Draw(t, label+"focus") > 0 {
				return focus
			}
			return c.Pool[rapid.IntRange(0, len(c.Pool)-1).Draw(t, label)]
		}
		switch kind {
		case "post":
			u := g.update(pick("body"), true)
			op.Upd = &u
			for _, f := range u.Fields {
				if f.Val == "null" && op.Line == 0 {
					hasNullMaster = true
				}
			}
		case "postkvs":
			n := rapid.IntRange(1, 3).Draw(t, "nkv")
			if n > len(c.Pool) {
				n = len(c.Pool)
			}
			idx := rapid.Permutation(c.Pool).Draw(t, "kvbodies")[:n]
			replace := rapid.IntRange(0, 3).Draw(t, "kvreplace") == 0
			for _, b := range idx {
				u := g.update(b, false)
				u.Replace = replace
				u.Cond = nil
				u.User = op.User
				op.KVs = append(op.KVs, u)
				for _, f := range u.Fields {
					if f.Val == "null" && op.Line == 0 {
						hasNullMaster = true
					}
				}
			}
		case "delete":
			op.Body = rapid.IntRange(0, 7).Draw(t, "delbody")
			op.DelMax = rapid.IntRange(0, 3).Draw(t, "delmax") == 0
			if g.delMax && op.Line == 0 {
				op.DelMax = true
			}
		case "schema", "schemadel":
			op.Schema = rapid.SampledFrom([]string{"json_schema", "json_schema", "schema", "schema_batch"}).Draw(t, "schematype")
			op.Doc = rapid.IntRange(0, 1).Draw(t, "doc")
			if kind == "schemadel" && g.noSchDel && op.Schema == "json_schema" {
				op.Schema = "schema"
			}
		case "compare", "reopen":
			cs := g.compareSpec(noQueryFields, needSub, needEq)
			op.Cmp = &cs
		}
		c.Ops = append(c.Ops, op)
	}
	c.Final = g.compareSpec(noQueryFields, needSub, needEq)
	if stats.IsKnown(sigNullDrift) && hasNullMaster {
		c.SkipCounts = true
		stats.Excluded(sigNullDrift)
	}
	return c
}

// ---------------------------------------------------------------- test

func checkCase(c njCase) (*exec, error) {
	e := &exec{c: c, classes: map[string]bool{}, perBodyWrites: map[uint64]int{}, nulled: map[string]bool{}}
	if c.CondName == "" {
		e.c.CondName = "conditional"
	}
	err := e.run()
	return e, err
}

func caseClasses(c njCase, e *exec) []string {
	cls := []string{"history"}
	for k := range e.classes {
		cls = append(cls, k)
	}
	scan := func(cmp njCompare) {
		for _, q := range cmp.Queries {
			for _, ands := range q.Ors {
				if len(ands) > 1 {
					cls = append(cls, "query/and")
				}
				for _, cd := range ands {
					switch {
					case strings.HasPrefix(cd.Val, `"re/`):
						cls = append(cls, "query/regex")
					case strings.HasPrefix(cd.Val, `"exists/`):
						cls = append(cls, "query/exists")
					case strings.HasPrefix(cd.Val, `[`):
						cls = append(cls, "query/list")
					default:
						cls = append(cls, "query/equality")
					}
					if cd.Field == "bodyid" {
						cls = append(cls, "query/bodyid")
					}
				}
			}
			if len(q.Ors) > 1 {
				cls = append(cls, "query/or")
			}
			if q.OnlyID {
				cls = append(cls, "query/onlyid")
			}
			if q.Show != "" {
				cls = append(cls, "query/show")
			}
			if len(q.Fields) > 0 {
				cls = append(cls, "query/fields")
			}
		}
		for _, r := range cmp.Ranges {
			if _, eq := rangeViews(c.Pool, r); eq {
				cls = append(cls, "keyrange/numeric==lexicographic-on-pool")
			} else {
				cls = append(cls, "keyrange/numeric!=lexicographic-on-pool")
			}
		}
	}
	scan(c.Final)
	for _, op := range c.Ops {
		if op.Cmp != nil {
			scan(*op.Cmp)
			if op.Kind == "compare" {
				cls = append(cls, "compare/mid-history")
			}
		}
		ups := op.KVs
		if op.Upd != nil {
			ups = append(ups, *op.Upd)
		}
		for _, u := range ups {
			for _, f := range u.Fields {
				if f.User != nil || f.Time != nil {
					cls = append(cls, "explicit-stamps")
				}
				if model.NJIsIntegralFloat(f.Val) {
					cls = append(cls, "value/integral-float")
				}
				if strings.HasPrefix(f.Val, "[") || strings.HasPrefix(f.Val, "{") {
					cls = append(cls, "value/nested")
				}
				if c, err := model.NJCanon(f.Val); err == nil && strings.HasPrefix(c, "#") && len(c) > 16 && !strings.Contains(c, "/") {
					cls = append(cls, "value/int>2^53")
				}
			}
			if u.Body > 1<<53 {
				cls = append(cls, "bodyid>2^53")
			}
		}
	}
	if e.armed {
		cls = append(cls, "armed(null-delete|replace after >=2 partial updates)")
	}
	sort.Strings(cls)
	var out []string
	for i, s := range cls {
		if i == 0 || s != cls[i-1] {
			out = append(out, s)
		}
	}
	return out
}

func TestC16History(t *testing.T) {
	rapid.Check(t, func(t *rapid.T) {
		c := genCase(t)
		stats.SetCur("C16", "TestC16History", c)
		e, err := checkCase(c)
		if !stats.Judge(t, "C16", "TestC16History", err, c) {
			return
		}
		stats.Count("http_requests", e.requests)
		stats.Record(stats.HashJSON(c), e.nontrivial, caseClasses(c, e), func() interface{} {
			return map[string]interface{}{"test": "history", "case": c}
		})
	})
}

func TestReplay(t *testing.T) {
	stats.RunReplay(t, map[string]func(json.RawMessage) error{
		"TestC16History": func(raw json.RawMessage) error {
			var c njCase
			if err := json.Unmarshal(raw, &c); err != nil {
				return err
			}
			_, err := checkCase(c)
			return err
		},
	})
}
