# Proposed CHECKS entry for C16 (paste into /verif/checks_config.py; T(...) is the helper defined there).
# Measured (16-core sandbox, other jobs running): ~50 ms per case (~200 HTTP requests per case) plus the in-process reopen
# (one case in six), whose cost grows with the number of repos already in the test store (every instance is re-initialised):
# one shard alone: 350 cases 31 s, 600 cases 65 s, 1500 cases 342 s.  quick = 300 x 4: ./check C16 wall 31-35 s (seeds 1,2,3);
# thorough = 1000 x 16 (about 160 s per shard alone); do not raise the per-shard count, add shards instead.
ENTRY = {
    "C16": {
        "pkg": "c16",
        "level": "exploration",
        "tests": [
            T("TestC16History", (300, 4), (1000, 16)),
        ],
        "required_classes": [
            "armed(null-delete|replace after >=2 partial updates)",
            "null-delete", "replace", "replace-removes", "keeps-unmentioned", "conditional-protects",
            "repeat-identical-value", "explicit-stamps", "delete-key", "postkvs", "branch", "advance",
            "compare/mid-history", "schema/json_schema", "schema/write-rejected",
            "print-equal-sibling-update", "print-equal-sibling-update/by-different-user",
            "reopen", "reopen/>=2-bodies", "reopen/lexicographic!=numeric-ids",
            "query/equality", "query/list", "query/regex", "query/exists", "query/and", "query/or", "query/onlyid", "query/show",
            "value/nested", "value/int>2^53", "bodyid>2^53",
        ],
        "rule": "rapid-generated op lists (4-20 ops) over POST key (plain / replace=true / conditional fields; 0-3 fields drawn from a..type with values "
                "from a JSON vocabulary: strings incl. escapes, ints up to 2^64-1 and below -2^53, floats, integral floats 3.0/1e3/[1.0,2], bools, "
                "lists, nested objects, nulls, repeats of the last posted value, print-equal siblings of the field's current value "
                "(12/\"12\", [\"a b\"]/[\"a\",\"b\"]/\"[a b]\", {\"x\":1}/{\"x\":\"1\"}, [1,2]/\"[1 2]\", true/\"true\", ...: different values whose Go renderings coincide), "
                "caller-supplied *_user/*_time), POST keyvalues (protobuf batch), "
                "DELETE key, json_schema/schema/schema_batch POST and DELETE, commit+newversion on the master line and on a side branch, "
                "mid-history comparisons, and in one case out of six one in-process restart (datastore.CloseReopenTest) in the second half of the history, usually right "
                "after a batch write to two bodies whose ids sort differently as strings and as numbers: every read of a comparison point is taken on the in-memory "
                "head before and after the reopen and must be identical (order included for keys, keyrange, keyrangevalues, keyvalues, query), then the history goes on; "
                "users vary per request; 2-5 body ids per case from {1,2,3,5,9,10,11,25,30,100,200,300,1000,2010,2^53+1,2^64-1}, always of at least two digit counts. "
                "After every write the annotation is read back and compared with model.NJState (merge rules, stamps). Each comparison commits "
                "the head H, creates master child H' (memory path) and a fresh branch B off H (store path) and issues keys, all(+show/fields), "
                "fields, fields?counts=true, key (+show=all), HEAD key, keyrange, keyrangevalues (json+protobuf), keyvalues (json+protobuf), "
                "1-4 grammar queries (equality, lists, re/, exists/0|1, AND, OR lists, bodyid, onlyid, show, fields), the three schema GETs on "
                "H, H' and B; earlier committed versions are re-read against their snapshot. Non-trivial: a null-delete of an existing field or a "
                "replace=true after >=2 partial updates of the same body on the master line, followed by a dual-path comparison. "
                "Distinct = hash of the case value.",
        "assumptions": [
            "the restart is emulated in-process with the upstream persistence-test helper datastore.CloseReopenTest (stores closed and reopened, metadata reloaded, every instance "
            "decoded afresh and re-initialised); package-level state survives it, neuronjson keeps none; a real process restart (O2) is decided by the child-process check",
            "*_time is compared only for same/different; 'the current time' is only asserted to differ from a caller-supplied past date",
            "stamps are not asserted where the help text is silent: a null on an absent field, a same-value post carrying explicit *_user/*_time, "
            "numerically equal but textually different numbers, the stamps of removed fields",
            "orderings are asserted only for query (help: ascending body id); keys/keyrange/all/fields are compared as sets",
            "query results are decided by the memory/store differential; the model additionally decides scalar string/integer equality, exists/0|1 "
            "and ^-anchored regexes on scalar strings (help text), everything else is don't-care",
            "queries on body ids alone use ascending distinct id lists; list query values are homogeneous once C16/query/panic is a known finding",
            "field names avoid the reserved suffixes _user/_time and the name 'user'; integers stay within int64/uint64; integers inside nested values stay below 2^53",
            "conditional fields are only listed for non-null fields of the request and never together with replace=true (combination not specified)",
            "with an active json_schema only the integer-typed field n is constrained; null / integral-float values of n have an unspecified verdict and the outcome is adopted",
        ],
    },
}
