# Proposed TEXT entry for C16 (paste into /verif/manifest_text.py).
ENTRY = {
    "C16": {
        "technique": "property-based testing (rapid), in-process HTTP driver: op-list histories of neuron-annotation writes; "
                     "(O1) three-way differential between the in-memory head, its committed parent and a fresh side branch (store path) over every read endpoint; "
                     "(O3) reference model of the documented field-merge and stamp rules (model/njson.go) checked by read-back after every write; "
                     "query answers decided by the memory/store differential plus a partial model (equality, exists, anchored regex)",
        "level_text": "Generated-input exploration with explicit oracles. Each case is a history of 4-20 operations (POST key plain/replace/conditional, "
                      "POST keyvalues, DELETE key, schema posts/deletes, commit+newversion on master and on a side branch) with JSON values chosen to stress "
                      "the typed in-memory representation (ints above 2^53, integral floats, nested lists/objects, nulls, repeated identical values, explicit stamps). "
                      "Every comparison point makes the same content readable through both implementations (H' = in-memory head, H and B = store) and compares "
                      "keys, values, field lists and counts, ranges, batch reads and 1-4 generated queries; committed versions are re-read later against their snapshot. "
                      "The state space (histories x values x queries) is unbounded, so this is search, not enumeration: absence of failures is not a proof. "
                      "Twelve signatures fail on the unchanged tree and are reported as findings; the generator steers around each listed one so the search continues behind it.",
        "level_note": "Restart equivalence (O2) is covered by the child-process check. Orderings are only asserted where the help text promises one (query); "
                      "*_time only as same/different plus 'differs from a caller-supplied past date'. Where the help text is silent (null on an absent field, "
                      "explicit stamps on an unchanged value, numeric coercion and list matching in queries, conditional+replace, null vs json_schema) nothing is asserted. "
                      "The upstream RFC3339 stamps have 1 s resolution, so 'time changed' cannot be observed between two server-stamped writes of one case.",
    },
}
