# Proposed TEXT entry for C16 (paste into /verif/manifest_text.py).
ENTRY = {
    "C16": {
        "technique": "property-based testing (rapid), in-process HTTP driver: op-list histories of neuron-annotation writes; "
                     "(O1) three-way differential between the in-memory head, its committed parent and a fresh side branch (store path) over every read endpoint; "
                     "(O3) reference model of the documented field-merge and stamp rules (model/njson.go) checked by read-back after every write; "
                     "query answers decided by the memory/store differential plus a partial model (equality, exists, anchored regex); "
                     "in-process restart (datastore.CloseReopenTest) inside histories with a before/after differential over the same reads",
        "level_text": "Generated-input exploration with explicit oracles. Each case is a history of 4-20 operations (POST key plain/replace/conditional, "
                      "POST keyvalues, DELETE key, schema posts/deletes, commit+newversion on master and on a side branch) with JSON values chosen to stress "
                      "the typed in-memory representation (ints above 2^53, integral floats, nested lists/objects, nulls, repeated identical values, print-equal siblings such as 12 / \"12\" or [\"a b\"] / [\"a\",\"b\"] written by a different user, explicit stamps); "
                      "body ids of a case always mix digit counts so that the store's string key order differs from the numeric order, and one case in six reopens the datastore "
                      "mid-history and requires every read of the head to be identical before and after. "
                      "Every comparison point makes the same content readable through both implementations (H' = in-memory head, H and B = store) and compares "
                      "keys, values, field lists and counts, ranges, batch reads and 1-4 generated queries; committed versions are re-read later against their snapshot. "
                      "The state space (histories x values x queries) is unbounded, so this is search, not enumeration: absence of failures is not a proof. "
                      "Twelve signatures fail on the unchanged tree and are reported as findings; the generator steers around each listed one so the search continues behind it.",
        "level_note": "The restart inside histories is the in-process close/reopen helper (package-level state survives; neuronjson has none); a real process restart (O2) is covered by the child-process check. "
                      "The reopen re-initialises every instance in the test store, so its cost grows with the cases already run in the shard: per-shard counts are kept at or below 1000. Orderings are only asserted where the help text promises one (query); "
                      "*_time only as same/different plus 'differs from a caller-supplied past date'. Where the help text is silent (null on an absent field, "
                      "explicit stamps on an unchanged value, numeric coercion and list matching in queries, conditional+replace, null vs json_schema) nothing is asserted. "
                      "The upstream RFC3339 stamps have 1 s resolution, so 'time changed' cannot be observed between two server-stamped writes of one case.",
    },
}
