// Package c16 holds the check of property C16 (see c16_test.go).  This file documents the findings of the check;
// it contains no code.
//
// # C16 findings
//
// Status (later round): findings 1, 2, 3, 6, 10, 11 and 12 below have since been fixed in /repo (see the "fixed:" lines of
// /verif/KNOWN_FINDINGS.txt); 4, 5, 7, 8 and 9 are listed there as known.  The text below describes the tree as it was
// when they were found.  The in-process reopen (restart emulation) added afterwards showed no before/after difference
// on the unchanged tree, so it has no entry here.
//
// All of these fail TestC16History on the unmodified /repo.  Each has a hand-minimised replay file under
// harness/props/c16/findings/ (format of $VERIF_LASTFAIL; run with
// VERIF_REPLAY=<file> go test -tags "badger filelog verif" -modfile /verif/build/repo/verif.mod -run 'TestReplay$' ./props/c16 -v),
// every one of which was replayed and fails with the listed signature.  The generator steers around a signature when it is
// listed in $VERIF_KNOWN_SIGS; with all twelve listed the check passes (5 seeds x 500-600 cases) and each mutation tried is
// still caught.
//
// Notation: memory path = the uncommitted master leaf H' (served from memdb, memstore.go:26 getMemDBbyVersion);
// store path = its committed parent H or a side branch B off H (same content, served from Badger).
// File references are into /repo/datatype/neuronjson/.
//
//  1. C16/fields/memory-count-drift-after-null-delete   (findings/null-delete-count-drift.json)
//     History: POST key/1 {"bodyid":1,"a":"x"}, POST key/2 {"bodyid":2,"a":"y"}, POST key/1 {"bodyid":1,"a":null}; commit, new version.
//     GET fields?counts=true: memory path {"a":2,...}, store path {"a":1,...} (plain fields differs the same way once the last
//     holder of the field nulls it).
//     Cause: storeAndUpdate (neuronjson.go:1416) calls updateJSON(origData, newData, ...) at :1438, which executes
//     delete(origData, field) for every nulled field (:1326), and only afterwards decrements the per-field counters
//     "for field := range origData { mdb.fields[field]-- }" (:1450-1452).  The nulled field is no longer in origData, so its
//     count is never decremented; every null-delete leaks +1.  The store path recounts from the annotations (getFieldCounts, :970).
//     Steering when known: the comparison of fields / fields?counts=true ignores exactly the field names that were null-deleted on
//     the master line of the case (case flag skip_counts); all other counts stay compared.
//
//  2. C16/DELETE-key/id-still-listed-in-memory   (findings/delete-id-still-listed.json)
//     History: POST bodies 1, 2, 3; DELETE key/1.  GET keys on the head answers ["1","2","3"] (store and model: 2, 3); keyrange
//     lists it too, a query with exists/0 conditions can return {} for the ghost id.
//     Cause: deleteBodyID (memstore.go:184-190) uses sort.Search(len(ids), func(i) bool { return ids[i] == bodyid }).  sort.Search
//     needs a monotone predicate; with == the binary search only lands on the element when every probe left of it is false, i.e.
//     reliably only for the largest id.  Otherwise it returns len(ids) and the id stays in mdb.ids while mdb.data lost it.
//     Steering when known: DELETE on the master line targets the numerically largest existing id (del_max), which the faulty
//     search does find; deletes on the side branch stay arbitrary.
//
//  3. C16/fields/zero-count-entry-in-memory   (findings/zero-count-entry.json)
//     History: POST key/1 {"bodyid":1,"a":"x"}, POST key/1?replace=true {"bodyid":1}.  Head: GET fields -> ["","","bodyid",""],
//     GET fields?counts=true -> {"a":0,"a_time":0,"a_user":0,"bodyid":1}; store path: ["bodyid"], {"bodyid":1}.
//     Cause: counters are decremented (:1450, :1581) but entries that reach 0 are never removed from mdb.fields; the fields handler
//     (:2282-2289) allocates len(fieldCount) strings and fills only those with count > 0, leaving "" names; counts=true returns
//     the zero entries.  Help :223-231 speaks of "all field names in annotations for the given version".
//     Steering when known: "" names and zero counts are dropped before comparing (lenient_zero).
//
//  4. C16/query/memory-differs-from-store/integral-float   (findings/integral-float-query.json)
//     History: POST key/1 {"bodyid":1,"a":[1.0,2]}; query {"a":1}: head [], committed parent [{"a":[1,2],"bodyid":1}].
//     Cause: NeuronJSON.UnmarshalJSON (:695-746) types values from their text: [1.0,2] fails []int64 and []string and becomes
//     []interface{}{1.0,2.0}; that object is what the memdb keeps (:1447).  The store keeps json.Marshal of it, [1,2], which the
//     store path re-parses as []int64{1,2}.  checkField (query.go:155-189) has no case for []interface{} field values (-> false)
//     but matches []int64.  The code comment at :702-706 states the intent ("queries on in-memory NeuronJSONs are consistent").
//     Steering when known: the value generator omits numbers written with a fraction/exponent whose value is integral.
//
//  5. C16/POST-key/stamps-change-on-identical-value/integral-float   (findings/integral-float-stamps.json)
//     History: POST key/1?u=alice {"bodyid":1,"a":3.0} then the identical body with u=bob: a_user becomes bob, a_time is rewritten.
//     Help :364-368: "If the current field value is the same as the new value, the *_user and *_time fields will not be updated."
//     Cause: same typing issue: the request gives float64(3), origData is re-read from the stored 3 as uint64(3) (:1423, :713),
//     and updateJSON compares with reflect.DeepEqual (:1342).
//     Steering when known: an integral float is never re-posted unchanged for the same body/field on the same line.
//
//  6. C16/query/fields-option-ignored-on-store-path   (findings/query-fields-ignored-on-store.json)
//     POST key/1 {"bodyid":1,"a":"x","b":"y"}; GET query?fields=b body {"a":"x"}: head [{"b":"y","bodyid":1}], store path
//     [{"a":"x","b":"y","bodyid":1}].  Help :568: "fields  Limit return to this list of field names".
//     Cause: queryInMemory uses selectFields(value, fieldMap, ...) (query.go:370), queryBackingStore only
//     removeReservedFields(value, showFields) (query.go:406).
//     Steering when known: generated queries carry no fields= option (all, key, keyvalues, keyrangevalues keep it).
//
//  7. C16/query/store-path-not-ascending   (findings/query-store-order.json)
//     Bodies 2 and 10 with a:"x"; query {"a":"x"} at the committed version returns 10 before 2.  Help :545: "A JSON list of
//     objects that matches the query is returned in ascending order of body ID."
//     Cause: queryBackingStore streams processStoreRange in key order; keys are the decimal id strings (keys.go NewTKey), so the
//     order is lexicographic.  The memory path iterates the numerically sorted mdb.ids.
//     Steering when known: ascending order is asserted on the memory path only (store_order_lax).
//
//  8. C16/keyrange/store-lexicographic-vs-memory-numeric   (findings/keyrange-lexicographic.json)
//     Bodies 2 and 10; GET keyrange/2/10: head ["2","10"], store path null.
//     Cause: GetKeysInRange (:1094-1141): the memory path selects ids numerically (:1108-1109); the store path asks Badger for the
//     lexicographic key range "2".."10" (empty) and then filters numerically (:1132-1137), i.e. returns the intersection of both
//     readings.  The help words the bounds lexicographically (:249-250), upstream callers use numeric ranges over mixed digit
//     counts (keyrange/0/2100, keyrange/10/2010 in neuronjson_test.go:794, :1648), which only work on the head.
//     (Also: an empty store-path result is the JSON null, the memory path answers []; the check treats both as empty.)
//     Steering when known: only ranges on which, for the body ids of the case, every numerically included id is also
//     lexicographically included (otherwise the range is replaced by 0/a).
//
//  9. C16/keyrangevalues/store-lexicographic-vs-memory-numeric   (findings/keyrangevalues-lexicographic.json)
//     Body 11; GET keyrangevalues/100/300?json=true: head {}, store path {"11":{...}}.
//     Cause: sendJSONValuesInRange: memory path numeric (:1766-1767); store path ProcessRange(first,last) (:1785) purely
//     lexicographic with no numeric filter (unlike keyrange), so it returns ids outside the numeric range even when both bounds
//     have the same number of digits.
//     Steering when known: only ranges on which both readings select the same ids of the case.
//
//  10. C16/json_schema/enforced-after-delete   (findings/json-schema-enforced-after-delete.json)
//     POST json_schema {"type":"object","properties":{"n":{"type":"integer"}}}, DELETE json_schema (GET now 404),
//     POST key/1 {"bodyid":1,"n":"abc"} -> 400 (still validated).  On a side branch (store lookup) the same write is accepted.
//     Cause: deleteMetadata (schema.go:134-151) deletes d.metadata[meta] (:149) but not d.compiledSchema; getJSONSchema (:46-52)
//     returns the cached compiledSchema for the head.  A restart clears it.
//     Steering when known: no DELETE json_schema is generated (deletes of schema / schema_batch stay).
//
//  11. C16/POST-key/conditional-param-ignored   (findings/conditional-param-ignored.json)
//     POST key/1 {"bodyid":1,"a":"abc"}, POST key/1?u=bob&conditional=a {"bodyid":1,"a":""} -> a is overwritten.
//     Help :388-390 documents the option as "conditional"; the handlers read "conditionals" (:2459, :2018), so a client that
//     follows the help text gets no protection and no error.  With conditionals= the documented behaviour holds (checked by the
//     generator once this signature is listed: class conditional-protects).
//     Steering when known: the case uses the query-string name conditionals (cond_name).
//
//  12. C16/query/panic   (findings/query-mixed-list-panic.json)
//     POST key/1 {"bodyid":1,"a":"x"}; GET query body {"a":[1,""]} -> "[Panic detected ... interface conversion: interface {} is
//     string, not float64" (status 200 because "[" was already written; both paths).
//     Cause: checkField (query.go:230-243) switches on the type of the first list element and type-asserts every other element
//     to it (val.(float64), :241).
//     Steering when known: generated list query values are homogeneous.
//
// Observations not asserted (help text silent):
//   - a null for a field the annotation does not have still creates <field>_user / <field>_time;
//   - {"n":null} is rejected while a json_schema types n as integer (null-delete vs validation);
//   - queries on body ids alone ({"bodyid":[10,2]}, or OR-lists of them) answer in request order without removing duplicates
//     and ignore onlyid; the generator only sends ascending distinct id lists;
//   - keys is numerically ordered on the head and lexicographically ordered on the store path (no order is promised).
package c16
