package c02

import (
	"fmt"
	"os"
	"sort"
	"strconv"
	"testing"

	"verif/stats"
)

var directedMethods = []string{"POST", "PUT", "DELETE", "PATCH", "HEAD", "GET"}

// directedCase enumerates, for one type and mode, every endpoint that has a valid-request builder with every
// method, plus the node routes and instance creation with their documented verb.  Combinations whose
// signature is listed as a known finding (or is in skip) are left out.
func directedCase(typename, mode string, skip map[string]bool) (sweepCase, int) {
	spec := specFor(typename)
	c := sweepCase{Type: typename, Mode: mode}
	var kws []string
	for k := range spec.valid {
		kws = append(kws, k)
	}
	sort.Strings(kws)
	excluded := 0
	cond := "committed"
	if mode == "read-only" {
		cond = "read-only"
	}
	for i, k := range kws {
		for j, m := range directedMethods {
			q := sweepReq{Target: "inst", Method: m, KW: k, Valid: true, A: 3*i + j, B: i + 2*j}
			sigs := []string{gateSig(q.sigBase(typename), m, "committed"), gateSig(q.sigBase(typename), m, cond)}
			known := false
			for _, s := range sigs {
				if stats.IsKnown(s) || skip[s] {
					known = true
					if !skip[s] {
						stats.Excluded(s)
					}
				}
			}
			if known {
				excluded++
				continue
			}
			c.Reqs = append(c.Reqs, q)
		}
	}
	for i, a := range []string{"note", "log", "commit", "branch", "newversion", "tag"} {
		c.Reqs = append(c.Reqs, sweepReq{Target: "node", Method: "POST", KW: a, Valid: true, A: i})
	}
	c.Reqs = append(c.Reqs, sweepReq{Target: "newinst", Method: "POST", KW: "instance", Valid: true})
	return c, excluded
}

// TestC02GateSweepDirected is the deterministic part of the sweep: type x endpoint-with-builder x method x
// {default, read-only} with well-formed payloads, one fixture per (type, mode).  With VERIF_C02_LIST_ALL=1 it
// does not stop at the first violation but lists every signature it meets (development aid).
func TestC02GateSweepDirected(t *testing.T) {
	kwOnce.Do(initUniverse)
	listAll := os.Getenv("VERIF_C02_LIST_ALL") != ""
	seen := map[string]bool{}
	found := map[string]string{}
	shard, shards := 0, 1
	if n, err := strconv.Atoi(os.Getenv("VERIF_SHARDS")); err == nil && n > 1 {
		shards = n
		shard, _ = strconv.Atoi(os.Getenv("VERIF_SHARD"))
	}
	job := 0
	for _, typename := range sweepTypes {
		if seen[typename] {
			continue
		}
		seen[typename] = true
		for _, mode := range []string{"default", "read-only"} {
			job++
			if job%shards != shard%shards {
				continue
			}
			skip := map[string]bool{}
			for {
				c, _ := directedCase(typename, mode, skip)
				stats.SetCur("C02", "TestC02GateSweep", c)
				cls, err := runSweep(c)
				if err != nil && listAll && stats.SigOf(err) != "" && !skip[stats.SigOf(err)] {
					skip[stats.SigOf(err)] = true
					found[stats.SigOf(err)] = err.Error()
					continue
				}
				// the recorded test name is the rapid test's: the replay handler is the same
				if !stats.Judge(t, "C02", "TestC02GateSweep", err, c) {
					break
				}
				labels := []string{"directed", "directed/type=" + typename, "directed/mode=" + mode}
				for k, n := range cls {
					stats.Count("directed/"+k, int64(n))
				}
				stats.Record(stats.HashJSON(c), cls["nt/twin-changed"] > 0, labels, func() interface{} { return map[string]interface{}{"test": "directed", "case": c} })
				break
			}
		}
	}
	if listAll {
		var sigs []string
		for s := range found {
			sigs = append(sigs, s)
		}
		sort.Strings(sigs)
		for _, s := range sigs {
			fmt.Printf("DIRECTED-FINDING %s\n    %.400s\n", s, found[s])
		}
	}
}
