package c02

import (
	"testing"
)

// TestC02Fixtures is a harness self-test: for every instantiable compiled type the fixture can be built, the
// open twin answers every snapshot read exactly like V (checked inside newFixture), and the snapshot of the
// committed V is reproducible (no read of the list depends on worker scheduling or the clock).
func TestC02Fixtures(t *testing.T) {
	kwOnce.Do(initUniverse)
	seen := map[string]bool{}
	for _, n := range sweepTypes {
		if seen[n] {
			continue
		}
		seen[n] = true
		for rep := 0; rep < 2; rep++ {
			fx, err := newFixture(specFor(n))
			if err != nil {
				t.Fatalf("%s: %v", n, err)
			}
			a, err := observe(fx.root, fx.V, fx.reads)
			if err != nil {
				t.Fatalf("%s: %v", n, err)
			}
			for i := 0; i < 3; i++ {
				b, err := observe(fx.root, fx.V, fx.reads)
				if err != nil {
					t.Fatalf("%s: %v", n, err)
				}
				if kind, msg := diffObs(a, b); kind != "" {
					t.Fatalf("%s: snapshot of V not reproducible: %s: %s", n, kind, msg)
				}
			}
			if rep == 0 {
				nonEmpty := 0
				for _, txt := range a.Text {
					if len(txt) > 8 && txt[:3] == "200" {
						nonEmpty++
					}
				}
				t.Logf("%-14s raw keys at V: %3d, reads: %3d (%d answered 200 with content), keywords: %d", n, len(a.Raw), len(a.Reads), nonEmpty, len(kwByType[n]))
			}
		}
	}
	t.Logf("not instantiable on the test backend: %v", skippedTypes)
}
