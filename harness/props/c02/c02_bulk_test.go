// C02 — committed versions are immutable: range deletes that span many stored pairs.
//
// ROI DELETE / re-POST, annotation and labelsz reloads and labelvol edits remove data with the store's
// DeleteRange, which works in batches (1000 pairs in Badger).  Histories with a handful of pairs never leave
// the first batch; this check posts ROIs whose number of stored spans straddles the batch size (and small
// ones), commits, and then deletes / replaces the ROI in descendants and siblings of the committed version.
// Oracle: the committed version's raw key dump and its GET roi / ptquery answers are what they were at commit.
package c02

import (
	"encoding/json"
	"fmt"
	"sort"
	"strings"
	"testing"

	"github.com/janelia-flyem/dvid/datastore"
	"github.com/janelia-flyem/dvid/dvid"
	"pgregory.net/rapid"

	"verif/drive"
	"verif/stats"
)

type bulkOp struct {
	Kind string `json:"kind"` // delete repost commit newversion branch
	Node int    `json:"node"` // index into the node list (taken modulo its length)
	N    int    `json:"n,omitempty"`
}

type bulkCase struct {
	Spans int      `json:"spans"` // number of spans (= stored pairs) of the ROI committed at the root
	Ops   []bulkOp `json:"ops"`
}

func bulkSpans(n, salt int) []byte {
	// one span per (z,y) row: every span is one stored pair
	out := make([][4]int, 0, n)
	for i := 0; i < n; i++ {
		z, y := 10+i/50, i%50
		out = append(out, [4]int{z, y, 5 + salt, 5 + salt + (y % 7)})
	}
	b, _ := json.Marshal(out)
	return b
}

type bulkNode struct {
	uuid   string
	locked bool
	snap   string // committed nodes: observation taken at commit
}

func bulkObserve(root, uuid string) (string, error) {
	v, err := datastore.VersionFromUUID(dvid.UUID(uuid))
	if err != nil {
		return "", err
	}
	dump, err := rawDump(root, []string{"bulkroi"}, v)
	if err != nil {
		return "", err
	}
	keys := make([]string, 0, len(dump))
	for k, val := range dump {
		keys = append(keys, k+"="+val)
	}
	sort.Strings(keys)
	raw := fmt.Sprintf("%d pairs %s", len(keys), sha([]byte(strings.Join(keys, "\n"))))
	r1 := drive.Get("node/" + uuid + "/bulkroi/roi")
	r2 := drive.Do("POST", "node/"+uuid+"/bulkroi/ptquery", []byte(`[[200,20,400],[5,5,320],[6,30,700]]`))
	return fmt.Sprintf("raw %s\nroi %d %x\nptquery %d %s", raw, r1.Code, sha(r1.Body), r2.Code, r2.Body), nil
}

func checkBulk(c bulkCase) error {
	root, err := drive.NewRepo()
	if err != nil {
		return fmt.Errorf("harness: %v", err)
	}
	if err := drive.NewInstance(root, "roi", "bulkroi", nil); err != nil {
		return fmt.Errorf("harness: %v", err)
	}
	if r := drive.Post("node/"+root+"/bulkroi/roi", bulkSpans(c.Spans, 0)); !r.OK() {
		return stats.Violf("C02/bulk/setup-post-refused", "POST roi with %d spans: %s", c.Spans, r)
	}
	nodes := []*bulkNode{{uuid: root}}
	commit := func(n *bulkNode) error {
		if n.locked {
			return nil
		}
		if err := drive.Commit(n.uuid); err != nil {
			return fmt.Errorf("harness: commit: %v", err)
		}
		n.locked = true
		s, err := bulkObserve(root, n.uuid)
		if err != nil {
			return fmt.Errorf("harness: %v", err)
		}
		n.snap = s
		return nil
	}
	if err := commit(nodes[0]); err != nil {
		return err
	}
	nbranch := 0
	for i, op := range c.Ops {
		n := nodes[op.Node%len(nodes)]
		what := fmt.Sprintf("op %d %+v on node %d (ROI of %d spans committed at the root)", i, op, op.Node%len(nodes), c.Spans)
		switch op.Kind {
		case "delete":
			if n.locked {
				continue
			}
			if r := drive.Delete("node/" + n.uuid + "/bulkroi/roi"); r.IsPanic() {
				return stats.Violf("C02/bulk/delete/panic", "%s: %s", what, r)
			}
		case "repost":
			if n.locked {
				continue
			}
			if r := drive.Post("node/"+n.uuid+"/bulkroi/roi", bulkSpans(op.N, 1+i)); r.IsPanic() {
				return stats.Violf("C02/bulk/repost/panic", "%s: %s", what, r)
			}
		case "commit":
			if err := commit(n); err != nil {
				return err
			}
		case "newversion", "branch":
			if len(nodes) >= 6 {
				continue
			}
			if err := commit(n); err != nil {
				return err
			}
			var child string
			var err error
			if op.Kind == "newversion" {
				child, err = drive.NewVersion(n.uuid)
			} else {
				nbranch++
				child, err = drive.Branch(n.uuid, fmt.Sprintf("side%d", nbranch))
			}
			if err != nil {
				// a second newversion on the same branch is refused: not the subject here
				continue
			}
			nodes = append(nodes, &bulkNode{uuid: child})
		}
		for j, m := range nodes {
			if !m.locked {
				continue
			}
			now, err := bulkObserve(root, m.uuid)
			if err != nil {
				return fmt.Errorf("harness: %v", err)
			}
			if now != m.snap {
				return stats.Violf("C02/bulk/committed-version-changed", "%s: committed node %d no longer reads as at its commit: %s", what, j, firstDiff(m.snap, now))
			}
		}
	}
	return nil
}

func firstDiff(a, b string) string {
	i := 0
	for i < len(a) && i < len(b) && a[i] == b[i] {
		i++
	}
	lo := i - 40
	if lo < 0 {
		lo = 0
	}
	cut := func(s string) string {
		hi := i + 80
		if hi > len(s) {
			hi = len(s)
		}
		if lo > len(s) {
			return ""
		}
		return s[lo:hi]
	}
	return fmt.Sprintf("lengths %d / %d, first difference at byte %d: %q vs %q", len(a), len(b), i, cut(a), cut(b))
}

func TestC02BulkRangeDelete(t *testing.T) {
	rapid.Check(t, func(t *rapid.T) {
		var c bulkCase
		sizeGen := rapid.OneOf(
			rapid.IntRange(1, 30),
			rapid.IntRange(990, 1010),
			rapid.IntRange(1990, 2010),
			rapid.IntRange(1011, 2600),
		)
		c.Spans = sizeGen.Draw(t, "spans")
		// the first descendant always exists and always removes data (delete or replacement)
		c.Ops = append(c.Ops, bulkOp{Kind: rapid.SampledFrom([]string{"newversion", "branch"}).Draw(t, "first")})
		c.Ops = append(c.Ops, bulkOp{Kind: rapid.SampledFrom([]string{"delete", "repost"}).Draw(t, "rm"), Node: 1, N: sizeGen.Draw(t, "n")})
		more := rapid.IntRange(0, 6).Draw(t, "more")
		for i := 0; i < more; i++ {
			op := bulkOp{
				Kind: rapid.SampledFrom([]string{"delete", "repost", "repost", "commit", "newversion", "branch"}).Draw(t, "kind"),
				Node: rapid.IntRange(0, 5).Draw(t, "node"),
			}
			if op.Kind == "repost" {
				op.N = sizeGen.Draw(t, "n")
			}
			c.Ops = append(c.Ops, op)
		}
		stats.SetCur("C02", "TestC02BulkRangeDelete", c)
		if !stats.Judge(t, "C02", "TestC02BulkRangeDelete", checkBulk(c), c) {
			return
		}
		labels := []string{"bulk"}
		switch {
		case c.Spans > 2000:
			labels = append(labels, "bulk/committed-pairs>2000")
		case c.Spans > 1000:
			labels = append(labels, "bulk/committed-pairs>1000")
		case c.Spans >= 990:
			labels = append(labels, "bulk/committed-pairs=990..1000")
		default:
			labels = append(labels, "bulk/committed-pairs<=30")
		}
		stats.Record(stats.HashJSON(c), c.Spans > 1000, labels, func() interface{} { return map[string]interface{}{"test": "bulk", "case": c} })
	})
}
