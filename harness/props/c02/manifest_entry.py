# Proposed TEXT entry for C02 (paste into /verif/manifest_text.py).
ENTRY = {
    "C02": {
        "technique": "property-based testing (rapid) + deterministic enumeration, in-process HTTP driver through the full middleware stack: "
                     "(1) differential gate sweep - the same request is sent to an open twin node (does it mutate?) and to the committed node, whose raw Badger "
                     "dump restricted to its version id, note/log/locked flag and read-endpoint snapshot must not change; endpoint keywords are read with go/ast "
                     "from the tree under test; server modes default / read-only / full-write; (2) metamorphic read stability - snapshot of every committed "
                     "node at commit time = snapshot after every later operation of a generated multi-datatype history",
        "level_text": "Generated-input exploration with explicit oracles plus a bounded deterministic enumeration. The directed sweep enumerates every "
                      "(compiled type that can be instantiated, endpoint with a payload builder, method in {POST,PUT,DELETE,PATCH,HEAD,GET}, mode in {default, read-only}) "
                      "once per run (~1200 requests); the random sweep adds junk payloads, endpoints without a builder (from the handlers' case clauses and the help "
                      "text), node routes, instance creation, full-write mode and request orderings; the stability test explores histories of <=25 operations after "
                      "the commit. The space of payloads and histories is unbounded, so absence of failures is not a proof. 17 signatures fail on the unchanged tree "
                      "(16 share one root cause: handlers that write on any verb other than GET while the locked-node and read-only gates enumerate verbs; 1: roi "
                      "partition reads instance-level z bounds) and are reported as findings; the generators steer around each listed one.",
        "level_note": "Only status 2xx vs not-2xx of child-creating routes is relied on. Admin-token requests are not exercised (no token is configured, so no "
                      "request carries the privilege). The file-log files are not compared directly; the labelmap mutations read at V stands in for them. "
                      "Restart is C03's subject. googlevoxels cannot be instantiated offline and is only counted.",
    },
}
