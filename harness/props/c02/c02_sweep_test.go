package c02

import (
	"encoding/json"
	"fmt"
	"regexp"
	"sort"
	"strings"
	"sync"
	"testing"

	"github.com/janelia-flyem/dvid/datastore"
	"github.com/janelia-flyem/dvid/dvid"
	"pgregory.net/rapid"

	"verif/drive"
	"verif/stats"
)

// ------------------------------------------------------------------ the case

type sweepCase struct {
	Type string     `json:"type"`
	Mode string     `json:"mode"` // default | read-only | full-write
	Reqs []sweepReq `json:"reqs"`
}

// ------------------------------------------------------------------ fixture: R committed root, V committed child, W open twin (sibling)

type fixture struct {
	spec   *typeSpec
	root   string
	V, W   string
	reads  []readReq
	twinN  int
	uniq   int
	wObs   *obs // observation of the clean twin
	wDirty bool
	names  []string // instance names as last observed
	vKids  int      // children V is known to have on its own branch through newversion
	pool   []string // twins that already carry the ingest part of the content (types with spec.ingest)
}

const poolSize = 3

func newFixture(spec *typeSpec) (*fixture, error) {
	root, err := drive.NewRepo()
	if err != nil {
		return nil, err
	}
	fx := &fixture{spec: spec, root: root, reads: spec.reads()}
	if err := spec.setup(root); err != nil {
		return nil, err
	}
	if err := drive.NewInstance(root, "keyvalue", "ukv", map[string]string{"versioned": "false"}); err != nil {
		return nil, err
	}
	trackRepo(root) // (nothing has been written yet)
	if err := drive.Commit(root); err != nil {
		return nil, err
	}
	if fx.V, err = drive.NewVersion(root); err != nil {
		return nil, err
	}
	if spec.ingest != nil {
		if err := spec.ingest(fx.V); err != nil {
			return nil, fmt.Errorf("ingest at V: %v", err)
		}
		for i := 0; i < poolSize; i++ {
			w, err := drive.Branch(root, fmt.Sprintf("pool%d", i))
			if err != nil {
				return nil, err
			}
			if err := spec.ingest(w); err != nil {
				return nil, fmt.Errorf("ingest at twin: %v", err)
			}
			fx.pool = append(fx.pool, w)
		}
	}
	if err := spec.content(fx.V); err != nil {
		return nil, fmt.Errorf("content at V: %v", err)
	}
	if err := okOrErr(drive.Post("node/"+fx.V+"/ukv/key/u1", []byte("unversioned")), "ukv"); err != nil {
		return nil, err
	}
	if err := fx.newTwin(); err != nil {
		return nil, err
	}
	// harness self-check: the twin really is a twin (same answers from every read of the snapshot list)
	ov, err := observe(root, fx.V, fx.reads)
	if err != nil {
		return nil, err
	}
	if twinDiffers(ov, fx.wObs) != "" {
		// background processing may lag: look again after a deep settle before calling the fixture broken
		deepSettle()
		if ov, err = observe(root, fx.V, fx.reads); err != nil {
			return nil, err
		}
		if fx.wObs, err = observe(root, fx.W, fx.reads); err != nil {
			return nil, err
		}
	}
	if why := twinDiffers(ov, fx.wObs); why != "" {
		return nil, fmt.Errorf("twin differs from V: %s", why)
	}
	if err := drive.Commit(fx.V); err != nil {
		return nil, err
	}
	return fx, nil
}

// twinDiffers compares the read snapshots of V and of its open twin ("" = same content).
var twinStampRe = regexp.MustCompile(`\d{4}-\d\d-\d\dT\d\d:\d\d:\d\d(\.\d+)?(Z|[+-]\d\d:\d\d)`)

func twinDiffers(ov, ow *obs) string {
	for k, a := range ov.Reads {
		if e := endpointOf(strings.SplitN(k, " ", 2)[1]); e == "mutations" || e == "lastmod" || e == "index" {
			continue // carry uuids / timestamps / mutation ids
		}
		b := ow.Reads[k]
		if a[:3] == b[:3] && a[0] != '2' {
			continue // both refused alike (the messages quote the uuid)
		}
		// the two nodes were filled one after the other: server-side timestamps (neuronjson <field>_time) may fall
		// into different seconds
		if a != b && twinStampRe.ReplaceAllString(string(canonJSON(ov.Body[k])), "T") != twinStampRe.ReplaceAllString(string(canonJSON(ow.Body[k])), "T") {
			return fmt.Sprintf("%s answers %s at V and %s at the twin", k, ov.Text[k], ow.Text[k])
		}
	}
	return ""
}

var errPoolEmpty = fmt.Errorf("twin pool exhausted")

// newTwin makes a fresh open sibling of V carrying the same content.
func (fx *fixture) newTwin() error {
	fx.twinN++
	var w string
	var err error
	if fx.spec.ingest != nil {
		if len(fx.pool) == 0 {
			return errPoolEmpty
		}
		w, fx.pool = fx.pool[0], fx.pool[1:]
	} else if w, err = drive.Branch(fx.root, fmt.Sprintf("twin%d", fx.twinN)); err != nil {
		return err
	}
	fx.W = w
	if err := fx.spec.content(w); err != nil {
		return fmt.Errorf("content at twin: %v", err)
	}
	settleFirm()
	fx.wDirty = false
	fx.wObs, err = observe(fx.root, w, fx.reads)
	return err
}

func sigType(typename string) string { return typeDir(typename) }

// build renders the request against node uuid.  side distinguishes the names that must be unique per send;
// newInst is the name of the instance a repo/<uuid>/instance request asks for.
func (fx *fixture) build(q sweepReq, uuid, side string) (method, url string, body []byte) {
	method, url, body, _ = fx.buildNamed(q, uuid, side)
	return
}

func (fx *fixture) buildNamed(q sweepReq, uuid, side string) (method, url string, body []byte, newInst string) {
	junkTail := junkTails[pick(q.Junk, len(junkTails))]
	junkBody := junkBodies[pick(q.Junk/len(junkTails), len(junkBodies))]
	fx.uniq++
	uniq := fmt.Sprintf("%s%s%d", side, fx.root[:10], fx.uniq)
	switch q.Target {
	case "inst", "unversioned":
		inst := fx.spec.target
		valid := fx.spec.valid
		if q.Target == "unversioned" {
			inst = "ukv"
			valid = kvSpec().valid
		}
		tail, body := junkTail, junkBody
		if f := valid[q.KW]; f != nil && q.Valid {
			tail, body = f(q)
		}
		return q.Method, "node/" + uuid + "/" + inst + "/" + q.KW + tail, body, ""
	case "node":
		body := junkBody
		if q.Valid {
			switch q.KW {
			case "note":
				body = []byte(fmt.Sprintf(`{"note":"changed %d"}`, q.A))
			case "log":
				body = []byte(fmt.Sprintf(`{"log":["entry %d","more"]}`, q.A))
			case "commit":
				body = []byte(`{"note":"again","log":["recommit"]}`)
			case "branch":
				body = []byte(fmt.Sprintf(`{"branch":"b-%s","note":"side"}`, uniq))
			case "newversion":
				body = []byte(`{"note":"next"}`)
			case "tag":
				body = []byte(fmt.Sprintf(`{"tag":"t-%s","note":"tagged"}`, uniq))
			}
		}
		return q.Method, "node/" + uuid + "/" + q.KW, body, ""
	case "newinst":
		tn := "keyvalue"
		if q.Valid {
			tn = fx.spec.name
		}
		cfg := map[string]string{"typename": tn, "dataname": "n" + uniq}
		if tn == "tarsupervoxels" {
			cfg["Extension"] = "dat"
		}
		return q.Method, "repo/" + uuid + "/instance", jsonBody(cfg), "n" + uniq
	}
	return q.Method, "node/" + uuid + "/" + q.KW, nil, ""
}

func (q sweepReq) sigBase(typename string) string {
	switch q.Target {
	case "node":
		return "C02/node/" + q.KW
	case "newinst":
		return "C02/repo-instance"
	case "unversioned":
		return "C02/unversioned-keyvalue/" + q.KW
	}
	return "C02/" + sigType(typename) + "/" + q.KW
}

// childCreating reports whether the request is one the statement says must stay allowed on a committed node.
func (q sweepReq) childCreating() bool {
	return q.Target == "node" && q.Method == "POST" && q.Valid && (q.KW == "branch" || q.KW == "newversion" || q.KW == "tag")
}

type reqOutcome struct {
	twinChanged string // "" or kind of change seen on the open twin
	refused     bool   // V answered non-2xx
}

// wellFormed: the request was rendered by a per-endpoint builder (documented URL shape and payload format).
func (fx *fixture) wellFormed(q sweepReq) bool {
	switch q.Target {
	case "inst":
		return q.Valid && fx.spec.valid[q.KW] != nil
	case "unversioned":
		return q.Valid && kvSpec().valid[q.KW] != nil
	case "node":
		return q.Valid && q.Method == "POST"
	}
	return q.Method == "POST"
}

// sendChecked sends one request.  A recovered panic on a well-formed request is a violation; on a junk
// request (missing URL parts, body of another endpoint) it is input validation, which is C20's subject:
// counted only.
func (fx *fixture) sendChecked(q sweepReq, method, url string, body []byte) (drive.Resp, error) {
	r := drive.Do(method, url, body)
	if r.IsPanic() {
		if fx.wellFormed(q) {
			return r, stats.Violf(q.sigBase(fx.spec.name)+"/panic", "%s %s (%d body bytes): %s", method, url, len(body), r)
		}
		stats.Count("sweep/panic-response-on-malformed-request/"+strings.TrimPrefix(q.sigBase(fx.spec.name), "C02/"), 1)
	}
	return r, nil
}

// probeTwin sends the request to the open twin and reports whether it is a real mutation.
func (fx *fixture) probeTwin(q sweepReq) (string, error) {
	m, u, b, newInst := fx.buildNamed(q, fx.W, "w")
	if _, err := fx.sendChecked(q, m, u, b); err != nil {
		return "", err
	}
	settle()
	after, err := observe(fx.root, fx.W, fx.reads)
	if err != nil {
		return "", err
	}
	kind, _ := diffObs(fx.wObs, after)
	if kind == "" && newInst != "" && instanceExists(fx.root, newInst) {
		kind = "instances"
		trackInstance(newInst)
	}
	if kind != "" {
		fx.wDirty = true
	}
	return kind, nil
}

// gated sends the request to node uuid (committed V, or an open node in read-only mode) and requires the
// node's observable state to stay exactly as it was.
func (fx *fixture) gated(q sweepReq, uuid, side, node string, ro bool) (drive.Resp, error) {
	base := q.sigBase(fx.spec.name)
	cond := "committed"
	if ro {
		cond = "read-only"
	}
	before, err := observe(fx.root, uuid, fx.reads)
	if err != nil {
		return drive.Resp{}, err
	}
	m, u, b, newInst := fx.buildNamed(q, uuid, side)
	var r drive.Resp
	withModes(ro, false, func() { r, err = fx.sendChecked(q, m, u, b) })
	if err != nil {
		return r, err
	}
	shown := strings.Replace(u, uuid, "<"+node+">", 1)
	err = withDeepRetry(func() error {
		after, err := observe(fx.root, uuid, fx.reads)
		if err != nil {
			return err
		}
		if kind, msg := diffObs(before, after); kind != "" {
			return stats.Violf(gateSig(base, q.Method, cond),
				"%s %s (%d body bytes) answered %s; %s state of the %s node changed: %s", m, shown, len(b), r, kind, node, msg)
		}
		if newInst != "" && instanceExists(fx.root, newInst) {
			return stats.Violf(gateSig(base, q.Method, cond), "%s %s answered %s; data instance %q was created through the %s node", m, shown, r, newInst, node)
		}
		return nil
	})
	return r, err
}

func runSweep(c sweepCase) (cls map[string]int, err error) {
	cls = map[string]int{}
	defer func() {
		// whatever happened, never leave the process in a widened or narrowed mode
		withModes(false, false, func() {})
	}()
	spec := specFor(c.Type)
	fx, err := newFixture(spec)
	if err != nil {
		return cls, fmt.Errorf("harness: fixture for %s: %v", c.Type, err)
	}
	var stable string // an open twin that is never mutated (read-only mode subject)
	if c.Mode == "read-only" {
		stable = fx.W
		fx.wDirty = true // the probes make their own scratch twins
	}
	if c.Mode == "full-write" {
		// documented exception: only "no panic response" is asserted while the mode is on
		for _, q := range c.Reqs {
			m, u, b := fx.build(q, fx.V, "f")
			var perr error
			var fr drive.Resp
			withModes(false, true, func() { fr, perr = fx.sendChecked(q, m, u, b) })
			if perr != nil {
				return cls, perr
			}
			if q.Target == "node" && q.KW == "newversion" && fr.OK() {
				fx.vKids++
			}
			settle()
			cls["full-write/requests"]++
		}
		// V may have changed: the gate must be back now, checked below on the state V has now
	}
	ensureTwin := func() error {
		if !fx.wDirty {
			return nil
		}
		err := fx.newTwin()
		if err == errPoolEmpty {
			// the prepared twins are used up: continue on a fresh fixture (new repo, new V)
			if fx, err = newFixture(spec); err != nil {
				return fmt.Errorf("harness: fixture for %s: %v", c.Type, err)
			}
			cls["fixture-rebuilt"]++
			if c.Mode == "read-only" {
				stable = fx.W
				return fx.newTwin()
			}
			return nil
		}
		return err
	}
	for _, q := range c.Reqs {
		if q.Target != "unversioned" {
			if err := ensureTwin(); err != nil {
				return cls, err
			}
		}
		if q.Target == "unversioned" {
			// outside the statement ("versioned data"): counted, only the panic oracle applies
			m, u, b := fx.build(q, fx.V, "v")
			if _, err := fx.sendChecked(q, m, u, b); err != nil {
				return cls, err
			}
			cls["unversioned-instance-request"]++
			continue
		}
		tw, err := fx.probeTwin(q)
		if err != nil {
			return cls, err
		}
		cls["requests"]++
		label := spec.name + "/" + q.KW
		if q.Target != "inst" {
			label = q.Target + "/" + q.KW
		}
		if tw != "" {
			cls["nt/twin-changed"]++
			cls["nt/"+label]++
			cls["ntm/"+label+"/"+q.Method]++
			cls["nt/twin-changed-"+strings.SplitN(tw, "/", 2)[0]]++
		}
		if c.Mode == "read-only" {
			if _, err := fx.gated(q, stable, "s", "open", true); err != nil {
				return cls, err
			}
			if _, err := fx.gated(q, fx.V, "v", "committed", true); err != nil {
				return cls, err
			}
			if tw != "" {
				cls["nt/read-only"]++
			}
			continue
		}
		r, err := fx.gated(q, fx.V, "v", "committed", false)
		if err != nil {
			return cls, err
		}
		if tw != "" && !r.OK() {
			cls["nt/refused-at-committed"]++
		}
		if tw != "" && c.Mode == "full-write" {
			cls["nt/gate-back-after-full-write"]++
		}
		if q.childCreating() {
			var made struct{ Child string }
			grew := false
			if r.OK() && json.Unmarshal(r.Body, &made) == nil && made.Child != "" {
				_, verr := datastore.VersionFromUUID(dvid.UUID(made.Child))
				grew = verr == nil
			}
			must := q.KW != "newversion" || fx.vKids == 0
			if q.KW == "newversion" && r.OK() {
				fx.vKids++
			}
			if must && (!r.OK() || !grew) {
				return cls, stats.Violf("C02/node/"+q.KW+"/child-creation-refused-on-committed-node", "POST %s with a fresh name on the committed node answered %s (child version exists: %v)", q.KW, r, grew)
			}
			if r.OK() && grew {
				cls["nt/child-created/"+q.KW]++
				cls["nt/twin-changed"]++ // NT rule for child-creating routes: the DAG really grew under the committed node
			}
		}
	}
	return cls, nil
}

func checkSweep(c sweepCase) error {
	_, err := runSweep(c)
	return err
}

// ------------------------------------------------------------------ keyword universe (read from the tree under test)

type kwInfo struct {
	KW  string
	Src string // ast | help | builder | unknown
}

var kwOnce sync.Once
var kwByType map[string][]kwInfo
var sweepTypes []string   // instantiable compiled types, weighted
var skippedTypes []string // compiled but not instantiable on the test backend

var unknownWords = []string{"frobnicate", "delete", "put", "Raw", "raw%20", "keys", "commit", "lock"}

func initUniverse() {
	kwByType = map[string][]kwInfo{}
	usable, rest := map[string]bool{}, map[string]bool{}
	var names []string
	for n := range datastore.CompiledTypes() {
		names = append(names, string(n))
	}
	sort.Strings(names)
	for _, n := range names {
		rest[n] = true
		spec := specFor(n)
		root, err := drive.NewRepo()
		if err == nil {
			err = spec.setup(root)
		}
		if err != nil {
			skippedTypes = append(skippedTypes, n)
			stats.Count("sweep/type-not-instantiable/"+n, 1)
			continue
		}
		seen := map[string]bool{}
		var list []kwInfo
		add := func(ks []string, src string) {
			for _, k := range ks {
				if !seen[k] {
					seen[k] = true
					list = append(list, kwInfo{k, src})
				}
			}
		}
		var vk []string
		for k := range spec.valid {
			vk = append(vk, k)
		}
		sort.Strings(vk)
		a, h, perr := endpointKeywords(typeDir(n))
		if perr != nil {
			panic(fmt.Sprintf("cannot parse datatype/%s of the tree under test: %v", typeDir(n), perr))
		}
		add(vk, "builder")
		add(h, "help")
		add(a, "ast")
		add(unknownWords, "unknown")
		kwByType[n] = list
		stats.Count("sweep/keywords/"+n, int64(len(list)))
		usable[n] = true
	}
	// rapid's SampledFrom favours the front of the list: the types are listed by weight, heaviest first,
	// and the class histogram is checked to contain every type
	order := []string{"labelmap", "labelmap", "neuronjson", "annotation", "keyvalue", "labelarray", "roi", "uint8blk", "labelmap", "labelsz", "labelvol",
		"neuronjson", "tarsupervoxels", "annotation", "labelblk", "imagetile", "keyvalue", "uint16blk", "rgba8blk", "float32blk", "uint64blk", "uint32blk", "multichan16"}
	for _, n := range order {
		if usable[n] {
			sweepTypes = append(sweepTypes, n)
			delete(rest, n)
		}
	}
	for _, n := range names { // compiled types the list above does not know (added to the tree later)
		if usable[n] && rest[n] {
			sweepTypes = append(sweepTypes, n)
		}
	}
}

var methods = []string{"POST", "POST", "POST", "POST", "DELETE", "DELETE", "DELETE", "PUT", "PUT", "PATCH", "PATCH", "HEAD", "GET"}
var nodeActions = []string{"note", "log", "commit", "branch", "newversion", "tag", "status", "unlock"}

// unlisted reports whether the gates have no opinion on the method (they enumerate get/head and post/put/delete).
func unlisted(method string) bool {
	return method != "GET" && method != "POST" && method != "PUT" && method != "DELETE"
}

// gateSig is the signature of "the request went through and changed the node": one per call site (type
// package + endpoint), method class and gate (cond: committed = locked-node gate, read-only = read-only mode).
func gateSig(base, method, cond string) string {
	if unlisted(method) {
		method = "unlisted-method"
	}
	return base + "/" + method + "/" + cond + "-changed"
}

func genSweep(t *rapid.T) sweepCase {
	kwOnce.Do(initUniverse)
	c := sweepCase{Type: rapid.SampledFrom(sweepTypes).Draw(t, "type")}
	c.Mode = rapid.SampledFrom([]string{"default", "default", "default", "default", "default", "read-only", "full-write"}).Draw(t, "mode")
	spec := specFor(c.Type)
	var reqs []sweepReq
	operands := func(q *sweepReq) {
		q.Method = rapid.SampledFrom(methods).Draw(t, "method")
		q.A = rapid.IntRange(0, 60).Draw(t, "a")
		q.B = rapid.IntRange(0, 60).Draw(t, "b")
		q.Junk = rapid.IntRange(0, len(junkTails)*len(junkBodies)-1).Draw(t, "junk")
	}
	for _, k := range kwByType[c.Type] {
		has := spec.valid[k.KW] != nil
		thr, reps := 7, 1 // include 30 % of the endpoints without a builder ...
		if has {
			thr, reps = 1, 2 // ... and 90 % (twice) of those with one; a draw of 0 means "left out", which is what shrinking aims for
		}
		for i := 0; i < reps; i++ {
			if rapid.IntRange(0, 9).Draw(t, "take") < thr {
				continue
			}
			q := sweepReq{Target: "inst", KW: k.KW}
			operands(&q)
			q.Valid = has && rapid.IntRange(0, 3).Draw(t, "valid") > 0
			if q.Valid && q.KW == "element" && q.Method == "POST" {
				q.Method = "DELETE" // the documented verb of this endpoint
			}
			// known findings: steer around the (endpoint, method class, gate) combination by construction
			skip := false
			for _, cond := range []string{"committed", "read-only"} {
				if sig := gateSig(q.sigBase(c.Type), q.Method, cond); (cond == "committed" || c.Mode == "read-only") && stats.IsKnown(sig) {
					stats.Excluded(sig)
					if q.Method == "POST" {
						skip = true // the documented verb itself is the listed finding: leave the endpoint out
					}
					q.Method = "POST"
				}
			}
			if skip {
				continue
			}
			reqs = append(reqs, q)
		}
	}
	for _, a := range nodeActions {
		if rapid.IntRange(0, 9).Draw(t, "takenode") < 5 {
			continue
		}
		q := sweepReq{Target: "node", KW: a}
		operands(&q)
		if rapid.IntRange(0, 4).Draw(t, "nodepost") > 0 {
			q.Method = "POST"
		}
		q.Valid = rapid.IntRange(0, 4).Draw(t, "valid") > 0
		reqs = append(reqs, q)
	}
	if rapid.IntRange(0, 9).Draw(t, "takeinst") >= 5 {
		q := sweepReq{Target: "newinst", KW: "instance"}
		operands(&q)
		q.Method = "POST"
		q.Valid = rapid.Bool().Draw(t, "valid")
		reqs = append(reqs, q)
	}
	if rapid.IntRange(0, 9).Draw(t, "takeunv") >= 7 {
		q := sweepReq{Target: "unversioned", KW: rapid.SampledFrom([]string{"key", "keyvalues", "keys"}).Draw(t, "ukw"), Valid: true}
		operands(&q)
		reqs = append(reqs, q)
	}
	if len(reqs) > 1 {
		reqs = rapid.Permutation(reqs).Draw(t, "order")
	}
	c.Reqs = reqs
	return c
}

func TestC02GateSweep(t *testing.T) {
	rapid.Check(t, func(t *rapid.T) {
		c := genSweep(t)
		stats.SetCur("C02", "TestC02GateSweep", c)
		cls, err := runSweep(c)
		if !stats.Judge(t, "C02", "TestC02GateSweep", err, c) {
			return
		}
		labels := []string{"sweep", "sweep/type=" + c.Type, "sweep/mode=" + c.Mode}
		for k, n := range cls {
			if strings.HasPrefix(k, "nt/") && strings.Count(k, "/") == 2 {
				labels = append(labels, "sweep/"+k) // per (type, endpoint) non-trivial coverage: one per case
			}
			stats.Count("sweep/"+k, int64(n))
		}
		sort.Strings(labels)
		stats.Record(stats.HashJSON(c), cls["nt/twin-changed"] > 0, labels, func() interface{} { return map[string]interface{}{"test": "sweep", "case": c} })
	})
}

func TestReplay(t *testing.T) {
	stats.RunReplay(t, map[string]func(json.RawMessage) error{
		"TestC02GateSweep": func(raw json.RawMessage) error {
			var c sweepCase
			if err := json.Unmarshal(raw, &c); err != nil {
				return err
			}
			return checkSweep(c)
		},
		"TestC02Resolve": func(raw json.RawMessage) error {
			var c resolveCase
			if err := json.Unmarshal(raw, &c); err != nil {
				return err
			}
			return checkResolve(c)
		},
		"TestC02BulkRangeDelete": func(raw json.RawMessage) error {
			var c bulkCase
			if err := json.Unmarshal(raw, &c); err != nil {
				return err
			}
			return checkBulk(c)
		},
		"TestC02ReadStability": func(raw json.RawMessage) error {
			var c stabCase
			if err := json.Unmarshal(raw, &c); err != nil {
				return err
			}
			return checkStability(c)
		},
	})
}
