# Proposed CHECKS entry for C02 (auto-loaded by /verif/checks_config.py; T(...) is the helper defined there).
# Measured on the 16-core sandbox with the 12 quick-tier processes running in parallel (other agents' jobs running
# too): gate sweep ~1.0 s per case (one fixture + ~22 requests, each with a twin probe and 2-3 snapshots; ~25 ms
# per request when run alone), read stability ~1.05 s per history, directed sweep 45 s for all 36 (type, mode) jobs
# in one process, 5-25 s per shard on 4 shards.  Quick emulation (40 / 35 cases x 4 shards + directed, 12 processes
# in parallel): 45-48 s wall on three seeds, 336 evaluations, ~4800 requests -> proposed 36 / 30 (~42 s).
# Thorough: 48 jobs on 16 workers, (220 x 1.05 + 200 x 1.1 + 10) s ~ 7.7 min.
ENTRY = {
    "C02": {
        "pkg": "c02",
        "level": "exploration",
        "tests": [
            T("TestC02GateSweepDirected", (1, 4), (1, 16), rapid=False),
            T("TestC02GateSweep", (36, 4), (220, 16)),
            T("TestC02ReadStability", (30, 4), (200, 16)),
            T("TestC02BulkRangeDelete", (10, 4), (120, 16)),
            T("TestC02Resolve", (40, 4), (600, 16)),
        ],
        "required_classes": [
            "directed/mode=default", "directed/mode=read-only", "directed/type=labelmap", "directed/type=keyvalue", "directed/type=neuronjson",
            "directed/type=annotation", "directed/type=roi", "directed/type=uint8blk", "directed/type=labelsz", "directed/type=labelarray",
            "directed/type=labelblk", "directed/type=labelvol", "directed/type=tarsupervoxels", "directed/type=imagetile", "directed/type=multichan16",
            "sweep/mode=default", "sweep/mode=read-only", "sweep/mode=full-write",
            "sweep/type=labelmap", "sweep/type=keyvalue", "sweep/type=neuronjson", "sweep/type=annotation", "sweep/type=roi", "sweep/type=uint8blk",
            "sweep/nt/labelmap/merge", "sweep/nt/labelmap/cleave", "sweep/nt/labelmap/raw", "sweep/nt/keyvalue/key", "sweep/nt/neuronjson/key",
            "sweep/nt/annotation/elements", "sweep/nt/node/note", "sweep/nt/node/log", "sweep/nt/child-created/branch", "sweep/nt/newinst/instance",
            "stability/post/write-in-descendant-of-V", "stability/post/write-outside-lineage-of-V", "stability/post/label-mapping-op-in-descendant-of-V",
            "stability/applied/dag-merge", "stability/applied/delete-other-instance", "stability/applied/new-instance",
            "resolve/has-conflict", "resolve/conflict-free-instance-before-conflicted-one", "resolve/two-conflicted-instances",
            "bulk/committed-pairs>1000", "bulk/committed-pairs=990..1000",
            "stability/applied/lmmerge", "stability/applied/lmcleave", "stability/applied/lmsplitsv", "stability/applied/annput", "stability/applied/njput",
        ],
        "rule": "Gate sweep (TestC02GateSweep, rapid): a case picks one of the compiled data types that can be instantiated on the test backend "
                "(19 of 20; googlevoxels needs a remote volume and is only counted), a server mode (default / read-only / full-write) and a list of "
                "requests: 30% of the type's endpoint keywords without a payload builder and 90% (twice) of those with one - keywords are the case-clause "
                "string literals of the type's ServeHTTP and the handlers it calls, read with go/ast from the tree under test, united with the keywords of "
                "the help text and a few unknown words - each with a method from {POST,DELETE,PUT,PATCH,HEAD,GET}, a well-formed URL tail and body from the "
                "per-endpoint builder (keyvalue key/keyvalues; labelmap raw?mutate, blocks, ingest-supervoxels, merge, cleave, split-supervoxel, split, renumber, "
                "index, indices, mappings, maxlabel, nextlabel, set-nextlabel, extents, resolution; annotation elements, element, move, blocks, reload, labels; "
                "neuronjson key, keyvalues, json_schema, schema, schema_batch, query; roi roi, ptquery; imageblk raw, blocks, extents, resolution; labelsz reload; "
                "labelblk raw, blocks; labelvol merge, split, split-coarse, resync, area; labelarray raw, blocks, merge, split, split-coarse; tarsupervoxels "
                "supervoxel, load; imagetile tile, metadata) or a junk tail/body; plus node routes note/log/commit/branch/newversion/tag/unknown, "
                "POST repo/<uuid>/instance through the committed uuid, and requests to an unversioned keyvalue instance (counted only). Fixture: instances on "
                "root R, R committed, V = newversion(R) and an open twin W = branch(R) with identical type-appropriate content, V committed. Every request goes "
                "first to W (is it a real mutation?), then to V: the raw Badger dump of the data keys whose version id is V's, V's note/log/locked flag and the "
                "read-endpoint snapshot of V must be identical before and after; branch/newversion/tag with fresh names must still succeed. Read-only mode: the "
                "same for an open node and V. Full-write mode: only 'no panic response', then the same requests again in default mode (gate back). "
                "Directed sweep (TestC02GateSweepDirected, deterministic): every (type, endpoint with builder, method of the six, mode in {default, read-only}) "
                "with the well-formed payload, same oracle. Read stability (TestC02ReadStability, rapid): keyvalue, labelmap, annotation synced to it, "
                "neuronjson, roi, uint8blk in one repo; 0-6 writes on the open node, commit = V, snapshot; then <=25 operations (writes of 18 kinds on open "
                "nodes below and beside V, commit, newversion, branch, DAG merge, new instances, deletion of other instances); after every operation the raw "
                "dump and the read snapshot of every committed node must equal the ones taken at its commit. Non-trivial: sweep case with >=1 request that "
                "changed the open twin (or created a child of V); history with >=1 accepted write in a descendant of V and >=1 outside V's lineage. "
                "Distinct = hash of the case value.",
        "assumptions": [
            "versioned content = stored data keys carrying the version id + what the versioned read endpoints answer; instance-level properties the code keeps per "
            "instance (info, metadata, resolution, tags, syncs, labelmap MaxRepoLabel/NextLabel/maxlabel/nextlabel) are left out of the snapshots",
            "answers whose element order comes from worker scheduling or Go map iteration are compared as sets (listed in props/c02/findings.go, N5)",
            "a 'Panic detected' answer is a violation only for requests rendered by a payload builder; for junk requests it is counted (input validation is C20's subject)",
            "the twin is prepared before the first label-mapping operation of the repo (props/c02/findings.go, N1)",
            "status codes are not relied on, except that branch/newversion/tag with fresh names must answer 2xx and name an existing child",
        ],
    },
}
