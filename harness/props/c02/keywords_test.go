package c02

import (
	"go/ast"
	"go/parser"
	"go/token"
	"os"
	"path/filepath"
	"regexp"
	"sort"
	"strconv"
	"strings"
)

// repoPath is the tree under test (the harness is compiled against the same tree through the modfile's replace).
func repoPath() string {
	if p := os.Getenv("VERIF_REPO"); p != "" {
		return p
	}
	return "/repo"
}

var kwRe = regexp.MustCompile(`^[a-z][a-z0-9_-]*$`)
var helpLineRe = regexp.MustCompile(`^\s*(GET|POST|DELETE|PUT|HEAD)\s+<api URL>/node/<UUID>/<data name>/([a-z][a-z0-9_-]*)`)

// typeDir maps a compiled type name to the datatype package directory that implements it.
func typeDir(typename string) string {
	switch typename {
	case "uint8blk", "uint16blk", "uint32blk", "uint64blk", "float32blk", "rgba8blk":
		return "imageblk"
	}
	return typename
}

// endpointKeywords reads datatype/<dir>/*.go from the tree under test and returns
//   - every string literal of a case clause inside (d *Data) ServeHTTP and inside the same-package
//     functions/methods it (transitively) calls, that looks like an endpoint name;
//   - every endpoint keyword documented in a help-text line starting with GET/POST/DELETE/PUT/HEAD.
func endpointKeywords(dir string) (fromAST, fromHelp []string, err error) {
	fset := token.NewFileSet()
	full := filepath.Join(repoPath(), "datatype", dir)
	pkgs, err := parser.ParseDir(fset, full, func(fi os.FileInfo) bool { return !strings.HasSuffix(fi.Name(), "_test.go") }, 0)
	if err != nil {
		return nil, nil, err
	}
	funcs := map[string]*ast.FuncDecl{}
	helpSet := map[string]bool{}
	for _, pkg := range pkgs {
		for _, f := range pkg.Files {
			for _, decl := range f.Decls {
				if fd, ok := decl.(*ast.FuncDecl); ok && fd.Body != nil {
					funcs[fd.Name.Name] = fd // methods and functions share the name space here: over-approximation is fine
				}
			}
			ast.Inspect(f, func(n ast.Node) bool {
				if bl, ok := n.(*ast.BasicLit); ok && bl.Kind == token.STRING && len(bl.Value) > 400 {
					s, err := strconv.Unquote(bl.Value)
					if err != nil {
						return true
					}
					for _, line := range strings.Split(s, "\n") {
						if m := helpLineRe.FindStringSubmatch(line); m != nil {
							helpSet[m[2]] = true
						}
					}
				}
				return true
			})
		}
	}
	astSet := map[string]bool{}
	seen := map[string]bool{}
	var visit func(name string)
	visit = func(name string) {
		if seen[name] {
			return
		}
		seen[name] = true
		fd := funcs[name]
		if fd == nil {
			return
		}
		ast.Inspect(fd.Body, func(n ast.Node) bool {
			switch x := n.(type) {
			case *ast.CaseClause:
				for _, e := range x.List {
					if bl, ok := e.(*ast.BasicLit); ok && bl.Kind == token.STRING {
						if s, err := strconv.Unquote(bl.Value); err == nil && kwRe.MatchString(s) {
							astSet[s] = true
						}
					}
				}
			case *ast.CallExpr:
				switch fn := x.Fun.(type) {
				case *ast.Ident:
					visit(fn.Name)
				case *ast.SelectorExpr:
					if strings.HasPrefix(fn.Sel.Name, "handle") || strings.HasPrefix(fn.Sel.Name, "Handle") || strings.HasPrefix(fn.Sel.Name, "serve") {
						visit(fn.Sel.Name)
					}
				}
			}
			return true
		})
	}
	visit("ServeHTTP")
	for k := range astSet {
		fromAST = append(fromAST, k)
	}
	for k := range helpSet {
		fromHelp = append(fromHelp, k)
	}
	sort.Strings(fromAST)
	sort.Strings(fromHelp)
	return fromAST, fromHelp, nil
}
