package c02

import (
	"archive/tar"
	"bytes"
	"compress/gzip"
	"encoding/binary"
	"encoding/json"
	"fmt"
	"strings"

	"github.com/janelia-flyem/dvid/datatype/common/labels"
	"github.com/janelia-flyem/dvid/datatype/common/proto"
	"github.com/janelia-flyem/dvid/dvid"
	pb "google.golang.org/protobuf/proto"

	"verif/drive"
	"verif/lmdrive"
	"verif/model"
)

// sweepReq is one generated request of the gate sweep (all operands are data drawn by rapid).
type sweepReq struct {
	Target string `json:"target"` // inst | node | newinst | unversioned
	Method string `json:"method"`
	KW     string `json:"kw"`    // endpoint keyword (inst, unversioned) or node action (node)
	Valid  bool   `json:"valid"` // use the per-endpoint valid builder when there is one
	A      int    `json:"a"`
	B      int    `json:"b"`
	Junk   int    `json:"junk"` // selector of junk URL tail and body
}

// validFn builds the URL tail (what follows the keyword) and the body of a well-formed request.
type validFn func(q sweepReq) (tail string, body []byte)

type typeSpec struct {
	name    string                  // compiled type name
	target  string                  // name of the instance under test
	setup   func(root string) error // create instances on the (open) root
	content func(uuid string) error // write the fixture content at an open node (after ingest, when ingest is set)
	// ingest, when set, is the part of the content that must be written on every node of the fixture before
	// the first label-mapping operation happens anywhere in the repo (see findings.go, note N1): the twins
	// of such a type are prepared in advance.
	ingest func(uuid string) error
	reads  func() []readReq // versioned-content read list
	valid  map[string]validFn
}

const edge = 16 // block edge of every volume instance of the fixtures

var bsCfg = map[string]string{"BlockSize": fmt.Sprintf("%d,%d,%d", edge, edge, edge)}

func okOrErr(r drive.Resp, what string) error {
	if !r.OK() {
		return fmt.Errorf("fixture: %s: %s", what, r)
	}
	return nil
}

func jsonBody(v interface{}) []byte {
	b, _ := json.Marshal(v)
	return b
}

func pick(i int, n int) int {
	if i < 0 {
		i = -i
	}
	return i % n
}

// ------------------------------------------------------------------ label volume content (32^3 voxels, 2x2x2 blocks of 16^3)

var lmGeom = model.LabelGeom{B: edge, OB: [3]int32{0, 0, 0}, NB: [3]int32{2, 2, 2}}

func labelAt(x, y, z int) uint64 {
	switch {
	case z >= 16 && y < 16:
		return 5
	case z >= 16 && x < 16:
		return 6
	case z >= 16:
		return 0
	case y >= 16:
		return 4
	case x >= 16:
		return 3
	case x < 8:
		return 1
	}
	return 2
}

func labelVolume() []uint64 {
	v := make([]uint64, 32*32*32)
	for z := 0; z < 32; z++ {
		for y := 0; y < 32; y++ {
			for x := 0; x < 32; x++ {
				v[z*1024+y*32+x] = labelAt(x, y, z)
			}
		}
	}
	return v
}

func u64bytes(v []uint64) []byte {
	b := make([]byte, 8*len(v))
	for i, x := range v {
		binary.LittleEndian.PutUint64(b[8*i:], x)
	}
	return b
}

func solidBlock(label uint64) []uint64 {
	v := make([]uint64, edge*edge*edge)
	for i := range v {
		v[i] = label
	}
	return v
}

// lmBlocksBody is the body of labelmap POST blocks / ingest-supervoxels (gzip-compressed native blocks).
func lmBlocksBody(coords [][3]int32, data [][]uint64) []byte {
	var buf bytes.Buffer
	bs := dvid.Point3d{edge, edge, edge}
	for i, c := range coords {
		blk, err := labels.MakeBlock(u64bytes(data[i]), bs)
		if err != nil {
			panic(err)
		}
		ser, _ := blk.MarshalBinary()
		var gz bytes.Buffer
		zw := gzip.NewWriter(&gz)
		zw.Write(ser)
		zw.Close()
		binary.Write(&buf, binary.LittleEndian, c[0])
		binary.Write(&buf, binary.LittleEndian, c[1])
		binary.Write(&buf, binary.LittleEndian, c[2])
		binary.Write(&buf, binary.LittleEndian, int32(gz.Len()))
		buf.Write(gz.Bytes())
	}
	return buf.Bytes()
}

func blockCoord(i int) [3]int32 {
	i = pick(i, 8)
	return [3]int32{int32(i & 1), int32((i >> 1) & 1), int32((i >> 2) & 1)}
}

func p3(a [3]int32) string { return fmt.Sprintf("%d_%d_%d", a[0], a[1], a[2]) }

// runs inside supervoxel/label 5 (z>=16, y<16): a slab of 2..5 rows
func splitRuns(n int) []lmdrive.Run {
	var rs []lmdrive.Run
	for y := 0; y < 2+pick(n, 4); y++ {
		rs = append(rs, lmdrive.Run{X: 0, Y: int32(y), Z: 16, N: 32})
	}
	return rs
}

var lmInst = lmdrive.LM{Name: "lm", G: lmGeom}

func lmIngest(name string) func(uuid string) error {
	return func(uuid string) error {
		l := lmdrive.LM{Name: name, G: lmGeom}
		r := l.PostRaw(uuid, [3]int32{0, 0, 0}, [3]int32{32, 32, 32}, labelVolume(), false)
		settle()
		return okOrErr(r, "labelmap POST raw")
	}
}

func lmContent(name string) func(uuid string) error {
	return func(uuid string) error {
		l := lmdrive.LM{Name: name, G: lmGeom}
		r := settledOK(func() drive.Resp { _, r := l.Merge(uuid, 3, []uint64{4}); return r })
		if err := okOrErr(r, "labelmap merge"); err != nil {
			return err
		}
		settle()
		return nil
	}
}

func u64list(v ...uint64) []byte {
	s := make([]string, len(v))
	for i, x := range v {
		s[i] = fmt.Sprintf("%d", x)
	}
	return []byte("[" + strings.Join(s, ",") + "]")
}

func lmReads(name string) []readReq {
	g := func(t string) readReq { return readReq{Method: "GET", Tail: name + "/" + t} }
	gb := func(t string, body []byte) readReq { return readReq{Method: "GET", Tail: name + "/" + t, Body: body} }
	rl := func(t string) readReq { return readReq{Method: "GET", Tail: name + "/" + t, Norm: "rles"} }
	out := []readReq{
		g("raw/0_1_2/32_32_32/0_0_0"), g("raw/0_1_2/32_32_32/0_0_0?supervoxels=true"),
		{Method: "GET", Tail: name + "/blocks/32_32_32/0_0_0?compression=uncompressed", Norm: "blockstream"}, g("specificblocks?blocks=1,1,1"),
		gb("sizes", u64list(1, 2, 3, 4, 5, 6, 100)), gb("sizes?supervoxels=true", u64list(1, 2, 3, 4, 5, 6)),
		gb("mapping", u64list(1, 2, 3, 4, 5, 6)), {Method: "GET", Tail: name + "/mappings", Norm: "lines"}, g("listlabels?sizes=true"), {Method: "GET", Tail: name + "/existing-labels", Norm: "jsonset"},
		gb("labels", []byte("[[1,1,1],[20,1,1],[1,20,1],[1,1,20],[20,20,20]]")), g("label/9_1_1"),
		g("supervoxel-splits"), g("mutations"),
	}
	for _, l := range []int{1, 2, 3, 5, 6, 100} {
		out = append(out, rl(fmt.Sprintf("sparsevol/%d", l)), rl(fmt.Sprintf("sparsevol-coarse/%d", l)), g(fmt.Sprintf("sparsevol-size/%d", l)),
			readReq{Method: "GET", Tail: fmt.Sprintf("%s/supervoxels/%d", name, l), Norm: "jsonset"}, g(fmt.Sprintf("size/%d", l)), readReq{Method: "GET", Tail: fmt.Sprintf("%s/index/%d", name, l), Norm: "labelindex"}, g(fmt.Sprintf("lastmod/%d", l)))
	}
	// (the streaming formats srles / blocks and multi-block specificblocks are sent by concurrent workers in no fixed order: left out)
	out = append(out, rl("sparsevol/4?supervoxels=true"))
	return out
}

func lmValid() map[string]validFn {
	bodies := []uint64{1, 2, 5, 6, 3}
	blocksBody := func(q sweepReq) []byte {
		return lmBlocksBody([][3]int32{blockCoord(q.A)}, [][]uint64{solidBlock(uint64(10 + pick(q.B, 3)))})
	}
	index := func(label uint64, empty bool) *proto.LabelIndex {
		li := &proto.LabelIndex{Label: label, Blocks: map[uint64]*proto.SVCount{}}
		if !empty {
			li.Blocks[labels.EncodeBlockIndex(0, 0, 0)] = &proto.SVCount{Counts: map[uint64]uint32{label: 10}}
		}
		return li
	}
	return map[string]validFn{
		"raw": func(q sweepReq) (string, []byte) {
			bc := blockCoord(q.A)
			off := [3]int32{bc[0] * edge, bc[1] * edge, bc[2] * edge}
			return "/0_1_2/16_16_16/" + p3(off) + "?mutate=true", u64bytes(solidBlock(uint64(10 + pick(q.B, 3))))
		},
		"blocks":             func(q sweepReq) (string, []byte) { return "", blocksBody(q) },
		"ingest-supervoxels": func(q sweepReq) (string, []byte) { return "", blocksBody(q) },
		"merge": func(q sweepReq) (string, []byte) {
			t := bodies[pick(q.A, len(bodies))]
			m := bodies[pick(q.A+1+pick(q.B, len(bodies)-1), len(bodies))]
			return "", u64list(t, m)
		},
		"cleave": func(q sweepReq) (string, []byte) {
			return "/3", u64list([]uint64{4, 3}[pick(q.A, 2)])
		},
		"split-supervoxel": func(q sweepReq) (string, []byte) { return "/5", lmdrive.EncodeRuns(splitRuns(q.A)) },
		"split":            func(q sweepReq) (string, []byte) { return "/5", lmdrive.EncodeRuns(splitRuns(q.A)) },
		"renumber": func(q sweepReq) (string, []byte) {
			return "", u64list(uint64(100+pick(q.A, 50)), []uint64{1, 2, 5, 6, 3}[pick(q.B, 5)])
		},
		"index": func(q sweepReq) (string, []byte) {
			if pick(q.A, 3) == 0 {
				b, _ := pb.Marshal(index(1, true)) // empty blocks map = delete the index of label 1
				return "/1", b
			}
			b, _ := pb.Marshal(index(77, false))
			return "/77", b
		},
		"indices": func(q sweepReq) (string, []byte) {
			b, _ := pb.Marshal(&proto.LabelIndices{Indices: []*proto.LabelIndex{index(77, false), index(78, false)}})
			return "", b
		},
		"mappings": func(q sweepReq) (string, []byte) {
			b, _ := pb.Marshal(&proto.MappingOps{Mappings: []*proto.MappingOp{{Mutid: uint64(1000 + pick(q.A, 10)), Mapped: 1, Original: []uint64{2}}}})
			return "", b
		},
		"maxlabel":      func(q sweepReq) (string, []byte) { return fmt.Sprintf("/%d", 1000+pick(q.A, 1000)), nil },
		"nextlabel":     func(q sweepReq) (string, []byte) { return fmt.Sprintf("/%d", 1+pick(q.A, 5)), nil },
		"set-nextlabel": func(q sweepReq) (string, []byte) { return fmt.Sprintf("/%d", 5000+pick(q.A, 1000)), nil },
		"extents":       func(q sweepReq) (string, []byte) { return "", []byte(`{"MinPoint":[0,0,0],"MaxPoint":[63,63,63]}`) },
		"resolution":    func(q sweepReq) (string, []byte) { return "", []byte(`[4,4,4]`) },
		"tags":          func(q sweepReq) (string, []byte) { return "", []byte(fmt.Sprintf(`{"t%d":"x"}`, pick(q.A, 3))) },
	}
}

// ------------------------------------------------------------------ annotation content

const annElements = `[
 {"Pos":[5,5,5],"Kind":"PostSyn","Rels":[{"Rel":"PostSynTo","To":[20,5,5]}],"Tags":["t1"],"Prop":{"p":"1"}},
 {"Pos":[20,5,5],"Kind":"PreSyn","Rels":[{"Rel":"PreSynTo","To":[5,5,5]}],"Tags":["t1","t2"]},
 {"Pos":[5,20,5],"Kind":"Note","Tags":["t2"],"Prop":{"q":"x"}},
 {"Pos":[5,5,20],"Kind":"PostSyn","Tags":["t3"]}
]`

var annPositions = [][3]int{{5, 5, 5}, {20, 5, 5}, {5, 20, 5}, {5, 5, 20}, {9, 9, 9}, {25, 25, 25}}

func annReads(name string) []readReq {
	// element lists are assembled from Go maps: their order is not part of the contract
	g := func(t string) readReq { return readReq{Method: "GET", Tail: name + "/" + t, Norm: "jsonset"} }
	return []readReq{g("all-elements"), g("elements/32_32_32/0_0_0"), g("blocks/64_64_64/0_0_0"), g("scan"),
		g("tag/t1?relationships=true"), g("tag/t2"), g("tag/t3"), g("tag/t9"),
		g("label/1?relationships=true"), g("label/2"), g("label/3"), g("label/5"), g("label/10"), g("label/100")}
}

func annValid() map[string]validFn {
	pos := func(i int) string {
		p := annPositions[pick(i, len(annPositions))]
		return fmt.Sprintf("%d_%d_%d", p[0], p[1], p[2])
	}
	return map[string]validFn{
		"elements": func(q sweepReq) (string, []byte) {
			p := annPositions[pick(q.A, len(annPositions))]
			return "", []byte(fmt.Sprintf(`[{"Pos":[%d,%d,%d],"Kind":"Note","Tags":["t%d"],"Prop":{"n":"%d"}}]`, p[0], p[1], p[2], 1+pick(q.B, 4), pick(q.B, 7)))
		},
		"element": func(q sweepReq) (string, []byte) { return "/" + pos(q.A), nil },
		"move": func(q sweepReq) (string, []byte) {
			return "/" + pos(q.A) + fmt.Sprintf("/%d_%d_%d", 1+pick(q.B, 30), 2+pick(q.B, 7), 3+pick(q.B, 11)), nil
		},
		"blocks": func(q sweepReq) (string, []byte) {
			return "", []byte(fmt.Sprintf(`{"0,0,0":[{"Pos":[%d,40,40],"Kind":"Note","Tags":["t4"]}]}`, 33+pick(q.A, 20)))
		},
		"reload": func(q sweepReq) (string, []byte) { return "", nil },
		"labels": func(q sweepReq) (string, []byte) {
			return "", []byte(fmt.Sprintf(`{"%d":"[{\"Pos\":[3,3,3],\"Kind\":\"Note\"}]"}`, 1+pick(q.A, 6)))
		},
		"tags": func(q sweepReq) (string, []byte) { return "", []byte(`{"x":"y"}`) },
	}
}

func annContent(name string) func(uuid string) error {
	return func(uuid string) error {
		r := drive.Post("node/"+uuid+"/"+name+"/elements", []byte(annElements))
		settle()
		return okOrErr(r, "annotation POST elements")
	}
}

// ------------------------------------------------------------------ image volume content

func voxelBytes(typename string) int {
	switch typename {
	case "uint16blk":
		return 2
	case "uint32blk", "float32blk", "rgba8blk":
		return 4
	case "uint64blk", "labelblk", "labelarray":
		return 8
	}
	return 1
}

func imgBytes(nvox, nb int, seed int) []byte {
	b := make([]byte, nvox*nb)
	for i := range b {
		b[i] = byte((i*7 + seed*13 + i/97) % 251)
	}
	return b
}

func imgSpec(typename string) *typeSpec {
	nb := voxelBytes(typename)
	name := "img"
	return &typeSpec{
		name: typename, target: name,
		setup: func(root string) error { return drive.NewInstance(root, typename, name, bsCfg) },
		content: func(uuid string) error {
			r := drive.Post("node/"+uuid+"/"+name+"/raw/0_1_2/32_32_16/0_0_0", imgBytes(32*32*16, nb, 1))
			settle()
			return okOrErr(r, typename+" POST raw")
		},
		reads: func() []readReq {
			g := func(t string) readReq { return readReq{Method: "GET", Tail: name + "/" + t} }
			return []readReq{g("raw/0_1_2/32_32_32/0_0_0"), g("blocks/0_0_0/2"), g("blocks/0_1_1/2"), g("specificblocks?blocks=1,1,0&compression=uncompressed"),
				g("subvolblocks/32_32_32/0_0_0?compression=uncompressed"), g("raw/0_1/32_32/0_0_3")} // (isotropic depends on the instance-level resolution: left out)
		},
		valid: map[string]validFn{
			"raw": func(q sweepReq) (string, []byte) {
				bc := blockCoord(q.A)
				off := [3]int32{bc[0] * edge, bc[1] * edge, bc[2] * edge}
				t := "/0_1_2/16_16_16/" + p3(off)
				if bc[2] == 0 {
					t += "?mutate=true"
				}
				return t, imgBytes(edge*edge*edge, nb, 2+pick(q.B, 5))
			},
			"blocks": func(q sweepReq) (string, []byte) {
				bc := blockCoord(q.A)
				bc[0] = 0
				return "/" + p3(bc) + "/2", imgBytes(2*edge*edge*edge, nb, 3+pick(q.B, 5))
			},
			"extents":    func(q sweepReq) (string, []byte) { return "", []byte(`{"MinPoint":[0,0,0],"MaxPoint":[63,63,63]}`) },
			"resolution": func(q sweepReq) (string, []byte) { return "", []byte(`[4,4,4]`) },
		},
	}
}

// ------------------------------------------------------------------ the specs

func kvProto(keys []string, val func(i int) []byte) []byte {
	var kvs proto.KeyValues
	for i, k := range keys {
		kvs.Kvs = append(kvs.Kvs, &proto.KeyValue{Key: k, Value: val(i)})
	}
	b, _ := pb.Marshal(&kvs)
	return b
}

var kvKeys = []string{"k1", "k2", "k3", "k4", "k5", "k6"}

func kvSpec() *typeSpec {
	name := "kv"
	return &typeSpec{
		name: "keyvalue", target: name,
		setup: func(root string) error { return drive.NewInstance(root, "keyvalue", name, nil) },
		content: func(uuid string) error {
			for i, k := range kvKeys[:4] {
				if err := okOrErr(drive.Post("node/"+uuid+"/"+name+"/key/"+k, []byte(fmt.Sprintf(`{"v":%d}`, i))), "keyvalue POST key"); err != nil {
					return err
				}
			}
			return okOrErr(drive.Delete("node/"+uuid+"/"+name+"/key/k4"), "keyvalue DELETE key")
		},
		reads: func() []readReq {
			out := []readReq{{Method: "GET", Tail: name + "/keys", Body: nil}, {Method: "GET", Tail: name + "/keyrange/0/zzzz", Body: nil}, {Method: "GET", Tail: name + "/keyrangevalues/0/zzzz?json=true", Body: nil},
				{Method: "GET", Tail: name + "/keyvalues?json=true", Body: []byte(`["k1","k2","k3","k4","k5","k6"]`)}}
			for _, k := range kvKeys {
				out = append(out, readReq{Method: "GET", Tail: name + "/key/" + k, Body: nil}, readReq{Method: "HEAD", Tail: name + "/key/" + k, Body: nil})
			}
			return out
		},
		valid: map[string]validFn{
			"key": func(q sweepReq) (string, []byte) {
				return "/" + kvKeys[pick(q.A, len(kvKeys))], []byte(fmt.Sprintf(`{"w":%d}`, pick(q.B, 9)))
			},
			"keyvalues": func(q sweepReq) (string, []byte) {
				ks := []string{kvKeys[pick(q.A, len(kvKeys))], kvKeys[pick(q.A+1+pick(q.B, 5), len(kvKeys))]}
				return "", kvProto(ks, func(i int) []byte { return []byte(fmt.Sprintf(`{"b":%d}`, i+pick(q.B, 5))) })
			},
			"tags": func(q sweepReq) (string, []byte) { return "", []byte(`{"x":"y"}`) },
		},
	}
}

var njKeys = []string{"1", "2", "10", "33", "2010"}

func njSpec() *typeSpec {
	name := "nj"
	return &typeSpec{
		name: "neuronjson", target: name,
		setup: func(root string) error { return drive.NewInstance(root, "neuronjson", name, nil) },
		content: func(uuid string) error {
			base := "node/" + uuid + "/" + name + "/"
			for i, k := range njKeys[:3] {
				body := fmt.Sprintf(`{"bodyid":%s,"a":"v%d","n":%d,"list":[1,2]}`, k, i, i*3)
				if err := okOrErr(drive.Post(base+"key/"+k+"?u=user1", []byte(body)), "neuronjson POST key"); err != nil {
					return err
				}
			}
			if err := okOrErr(drive.Post(base+"schema", []byte(`{"fields":["a","n"]}`)), "neuronjson POST schema"); err != nil {
				return err
			}
			return okOrErr(drive.Post(base+"schema_batch", []byte(`{"batch":["a"]}`)), "neuronjson POST schema_batch")
		},
		reads: func() []readReq {
			g := func(t string) readReq { return readReq{Method: "GET", Tail: name + "/" + t} }
			// key lists: the in-memory head of the master branch answers in numeric id order, the store in
			// lexicographic key order (props/c16 reports that); the help text of keys/keyrange promises no order
			out := []readReq{{Method: "GET", Tail: name + "/keys", Norm: "jsontop"}, {Method: "GET", Tail: name + "/all", Norm: "jsontop"}, {Method: "GET", Tail: name + "/all?show=all", Norm: "jsontop"}, {Method: "GET", Tail: name + "/fields", Norm: "jsonset"}, g("fields?counts=true"), {Method: "GET", Tail: name + "/keyrange/0/99999", Norm: "jsontop"}, {Method: "GET", Tail: name + "/keyrangevalues/0/99999?json=true", Norm: "jsonobj"},
				g("json_schema"), g("schema"), g("schema_batch"),
				{Method: "GET", Tail: name + "/keyvalues?json=true", Body: []byte(`["1","2","10","33","2010"]`), Norm: "jsonobj"},
				{Method: "GET", Tail: name + "/query", Body: []byte(`{"a":"re/v.*"}`), Norm: "jsontop"}, {Method: "POST", Tail: name + "/query", Body: []byte(`{"n":3}`)}}
			for _, k := range njKeys {
				out = append(out, g("key/"+k), g("key/"+k+"?show=all"))
			}
			return out
		},
		valid: map[string]validFn{
			"key": func(q sweepReq) (string, []byte) {
				k := njKeys[pick(q.A, len(njKeys))]
				t := "/" + k + "?u=user2"
				if pick(q.B, 4) == 0 {
					t += "&replace=true"
				}
				return t, []byte(fmt.Sprintf(`{"bodyid":%s,"a":"w%d","z":%d}`, k, pick(q.B, 5), pick(q.B, 3)))
			},
			"keyvalues": func(q sweepReq) (string, []byte) {
				ks := []string{njKeys[pick(q.A, len(njKeys))]}
				return "?u=user2", kvProto(ks, func(i int) []byte { return []byte(fmt.Sprintf(`{"bodyid":%s,"m":%d}`, ks[i], pick(q.B, 5))) })
			},
			"json_schema": func(q sweepReq) (string, []byte) {
				return "", []byte(`{"type":"object","properties":{"bodyid":{"type":"integer"}}}`)
			},
			"schema": func(q sweepReq) (string, []byte) {
				return "", []byte(fmt.Sprintf(`{"fields":["a","n","x%d"]}`, pick(q.A, 3)))
			},
			"schema_batch": func(q sweepReq) (string, []byte) {
				return "", []byte(fmt.Sprintf(`{"batch":["n","x%d"]}`, pick(q.A, 3)))
			},
			"query": func(q sweepReq) (string, []byte) { return "", []byte(`{"a":"v1"}`) },
			"tags":  func(q sweepReq) (string, []byte) { return "", []byte(`{"x":"y"}`) },
		},
	}
}

func roiSpec() *typeSpec {
	name := "roi"
	return &typeSpec{
		name: "roi", target: name,
		setup: func(root string) error { return drive.NewInstance(root, "roi", name, bsCfg) },
		content: func(uuid string) error {
			return okOrErr(drive.Post("node/"+uuid+"/"+name+"/roi", []byte(`[[0,0,0,1],[0,1,0,0],[1,0,1,1]]`)), "roi POST roi")
		},
		reads: func() []readReq {
			g := func(t string) readReq { return readReq{Method: "GET", Tail: name + "/" + t} }
			return []readReq{g("roi"), g("mask/0_1_2/48_40_40/0_0_0"), g("partition?batchsize=2"),
				{Method: "POST", Tail: name + "/ptquery", Body: []byte(`[[1,1,1],[20,1,1],[40,1,1],[1,20,1],[20,1,20],[1,1,40]]`)}}
		},
		valid: map[string]validFn{
			"roi": func(q sweepReq) (string, []byte) {
				return "", []byte(fmt.Sprintf(`[[%d,%d,0,%d]]`, pick(q.A, 3), pick(q.B, 2), pick(q.A+q.B, 3)))
			},
			"ptquery": func(q sweepReq) (string, []byte) { return "", []byte(`[[1,1,1],[100,100,100]]`) },
		},
	}
}

func lmSpec() *typeSpec {
	return &typeSpec{
		name: "labelmap", target: "lm",
		setup:   func(root string) error { return drive.NewInstance(root, "labelmap", "lm", bsCfg) },
		ingest:  lmIngest("lm"),
		content: lmContent("lm"),
		reads:   func() []readReq { return lmReads("lm") },
		valid:   lmValid(),
	}
}

func setSync(root, inst, to string) error {
	return okOrErr(drive.Post("node/"+root+"/"+inst+"/sync", []byte(fmt.Sprintf(`{"sync":%q}`, to))), inst+" POST sync")
}

func annSpec() *typeSpec {
	lmc := lmContent("lm")
	annc := annContent("ann")
	return &typeSpec{
		name: "annotation", target: "ann",
		setup: func(root string) error {
			if err := drive.NewInstance(root, "labelmap", "lm", bsCfg); err != nil {
				return err
			}
			if err := drive.NewInstance(root, "annotation", "ann", nil); err != nil {
				return err
			}
			return setSync(root, "ann", "lm")
		},
		ingest: lmIngest("lm"),
		content: func(uuid string) error {
			if err := lmc(uuid); err != nil {
				return err
			}
			return annc(uuid)
		},
		reads: func() []readReq { return append(annReads("ann"), lmReads("lm")[:6]...) },
		valid: annValid(),
	}
}

func lszSpec() *typeSpec {
	a := annSpec()
	return &typeSpec{
		name: "labelsz", target: "lsz",
		setup: func(root string) error {
			if err := a.setup(root); err != nil {
				return err
			}
			if err := drive.NewInstance(root, "labelsz", "lsz", nil); err != nil {
				return err
			}
			return setSync(root, "lsz", "ann")
		},
		ingest:  a.ingest,
		content: a.content,
		reads: func() []readReq {
			g := func(t string) readReq { return readReq{Method: "GET", Tail: "lsz/" + t, Body: nil} }
			out := []readReq{}
			for _, it := range []string{"PostSyn", "PreSyn", "AllSyn", "Gap", "Note"} {
				out = append(out, readReq{Method: "GET", Tail: "lsz/counts/" + it, Body: []byte("[1,2,3,5,6,100]")}, g("top/3/"+it), g("threshold/1/"+it), g("count/1/"+it), g("count/3/"+it), g("count/5/"+it))
			}
			return append(out, annReads("ann")[:3]...)
		},
		valid: map[string]validFn{
			"reload": func(q sweepReq) (string, []byte) { return "", nil },
		},
	}
}

func labelblkSpec(zeroAtSetup bool) *typeSpec {
	name := "lb"
	return &typeSpec{
		name: "labelblk", target: name,
		setup: func(root string) error {
			if err := drive.NewInstance(root, "labelblk", name, bsCfg); err != nil {
				return err
			}
			if zeroAtSetup {
				return labelblkZero(root, name)
			}
			return nil
		},
		content: func(uuid string) error {
			// (the root already holds background voxels over the whole extent, see labelblkZero: an overwrite)
			r := drive.Post("node/"+uuid+"/"+name+"/raw/0_1_2/32_32_32/0_0_0?mutate=true", u64bytes(labelVolume()))
			settle()
			return okOrErr(r, "labelblk POST raw")
		},
		reads: func() []readReq {
			g := func(t string) readReq { return readReq{Method: "GET", Tail: name + "/" + t} }
			return []readReq{g("raw/0_1_2/32_32_32/0_0_0"), g("blocks/32_32_32/0_0_0?compression=uncompressed"), g("label/1_1_1"), g("label/20_20_20"),
				{Method: "GET", Tail: name + "/labels", Body: []byte("[[1,1,1],[20,1,1],[1,20,1],[1,1,20]]")}}
		},
		valid: map[string]validFn{
			"raw": func(q sweepReq) (string, []byte) {
				bc := blockCoord(q.A)
				off := [3]int32{bc[0] * edge, bc[1] * edge, bc[2] * edge}
				return "/0_1_2/16_16_16/" + p3(off) + "?mutate=true", u64bytes(solidBlock(uint64(10 + pick(q.B, 3))))
			},
			"blocks": func(q sweepReq) (string, []byte) {
				bc := blockCoord(q.A)
				off := [3]int32{bc[0] * edge, bc[1] * edge, bc[2] * edge}
				return "/16_16_16/" + p3(off), nil // DELETE blocks/<size>/<offset>
			},
			"resolution": func(q sweepReq) (string, []byte) { return "", []byte(`[4,4,4]`) },
		},
	}
}

// labelblkZero writes background voxels over the whole fixture extent on the root.  Every later write of the
// case then stays inside the advertised extents, so imageblk's background PostExtents no longer re-serialises
// the repo (datastore.SaveDataByVersion gob-encodes every instance) while labelvol's sync goroutine updates its
// MaxLabel map: that unsynchronised pair is a process-killing race of the code under test (findings.go, N3).
func labelblkZero(root, name string) error {
	r := drive.Post("node/"+root+"/"+name+"/raw/0_1_2/32_32_32/0_0_0", make([]byte, 8*32*32*32))
	settle()
	return okOrErr(r, "labelblk POST raw (background)")
}

func labelvolSpec() *typeSpec {
	lb := labelblkSpec(false) // (the background write follows the syncs below)
	name := "lv"
	return &typeSpec{
		name: "labelvol", target: name,
		setup: func(root string) error {
			if err := lb.setup(root); err != nil {
				return err
			}
			if err := drive.NewInstance(root, "labelvol", name, bsCfg); err != nil {
				return err
			}
			if err := setSync(root, name, "lb"); err != nil {
				return err
			}
			if err := setSync(root, "lb", name); err != nil {
				return err
			}
			return labelblkZero(root, "lb")
		},
		content: lb.content,
		reads: func() []readReq {
			g := func(t string) readReq { return readReq{Method: "GET", Tail: name + "/" + t} }
			rl := func(t string) readReq { return readReq{Method: "GET", Tail: name + "/" + t, Norm: "rles"} }
			out := lb.reads()[:2]
			for _, l := range []int{1, 2, 3, 4, 5, 6, 50} {
				out = append(out, rl(fmt.Sprintf("sparsevol/%d", l)), rl(fmt.Sprintf("sparsevol-coarse/%d", l)), readReq{Method: "HEAD", Tail: fmt.Sprintf("%s/sparsevol/%d", name, l)})
			}
			return append(out, g("sparsevol-by-point/1_1_1"))
		},
		valid: map[string]validFn{
			"merge": func(q sweepReq) (string, []byte) {
				bodies := []uint64{1, 2, 3, 4, 5, 6}
				t := bodies[pick(q.A, 6)]
				m := bodies[pick(q.A+1+pick(q.B, 5), 6)]
				return "", u64list(t, m)
			},
			"split": func(q sweepReq) (string, []byte) { return "/5", lmdrive.EncodeRuns(splitRuns(q.A)) },
			"split-coarse": func(q sweepReq) (string, []byte) {
				return "/5", lmdrive.EncodeRuns([]lmdrive.Run{{X: 0, Y: 0, Z: 1, N: 1}})
			},
			"resync": func(q sweepReq) (string, []byte) {
				return "/5", lmdrive.EncodeRuns([]lmdrive.Run{{X: 0, Y: 0, Z: 1, N: 2}})
			},
			"area":      func(q sweepReq) (string, []byte) { return fmt.Sprintf("/%d/16_16_16/0_0_0", 1+pick(q.A, 2)), nil },
			"nextlabel": func(q sweepReq) (string, []byte) { return "", nil },
		},
	}
}

func labelarraySpec() *typeSpec {
	name := "la"
	return &typeSpec{
		name: "labelarray", target: name,
		setup: func(root string) error { return drive.NewInstance(root, "labelarray", name, bsCfg) },
		content: func(uuid string) error {
			r := drive.Post("node/"+uuid+"/"+name+"/raw/0_1_2/32_32_32/0_0_0", u64bytes(labelVolume()))
			settle()
			return okOrErr(r, "labelarray POST raw")
		},
		reads: func() []readReq {
			g := func(t string) readReq { return readReq{Method: "GET", Tail: name + "/" + t} }
			rl := func(t string) readReq { return readReq{Method: "GET", Tail: name + "/" + t, Norm: "rles"} }
			out := []readReq{g("raw/0_1_2/32_32_32/0_0_0"), {Method: "GET", Tail: name + "/blocks/32_32_32/0_0_0?compression=uncompressed", Norm: "blockstream"}, g("label/1_1_1"), g("specificblocks?blocks=0,0,0"),
				{Method: "GET", Tail: name + "/labels", Body: []byte("[[1,1,1],[20,1,1],[1,20,1],[1,1,20]]")}}
			for _, l := range []int{1, 2, 3, 5, 6, 50} {
				out = append(out, rl(fmt.Sprintf("sparsevol/%d", l)), rl(fmt.Sprintf("sparsevol-coarse/%d", l)), g(fmt.Sprintf("sparsevol-size/%d", l)))
			}
			return out
		},
		valid: map[string]validFn{
			"raw": func(q sweepReq) (string, []byte) {
				bc := blockCoord(q.A)
				off := [3]int32{bc[0] * edge, bc[1] * edge, bc[2] * edge}
				return "/0_1_2/16_16_16/" + p3(off) + "?mutate=true", u64bytes(solidBlock(uint64(10 + pick(q.B, 3))))
			},
			"blocks": func(q sweepReq) (string, []byte) {
				return "", lmBlocksBody([][3]int32{blockCoord(q.A)}, [][]uint64{solidBlock(uint64(10 + pick(q.B, 3)))})
			},
			"merge": func(q sweepReq) (string, []byte) {
				bodies := []uint64{1, 2, 3, 4, 5, 6}
				t := bodies[pick(q.A, 6)]
				m := bodies[pick(q.A+1+pick(q.B, 5), 6)]
				return "", u64list(t, m)
			},
			"split": func(q sweepReq) (string, []byte) { return "/5", lmdrive.EncodeRuns(splitRuns(q.A)) },
			"split-coarse": func(q sweepReq) (string, []byte) {
				return "/5", lmdrive.EncodeRuns([]lmdrive.Run{{X: 0, Y: 0, Z: 1, N: 1}})
			},
			"nextlabel":  func(q sweepReq) (string, []byte) { return "", nil },
			"resolution": func(q sweepReq) (string, []byte) { return "", []byte(`[4,4,4]`) },
		},
	}
}

func tarBody(ids []int, ext string) []byte {
	var buf bytes.Buffer
	tw := tar.NewWriter(&buf)
	for _, id := range ids {
		data := []byte(fmt.Sprintf("payload-%d", id))
		tw.WriteHeader(&tar.Header{Name: fmt.Sprintf("%d.%s", id, ext), Mode: 0644, Size: int64(len(data))})
		tw.Write(data)
	}
	tw.Close()
	return buf.Bytes()
}

func tarsvSpec() *typeSpec {
	name := "tsv"
	lmc := lmContent("lm")
	return &typeSpec{
		name: "tarsupervoxels", target: name,
		setup: func(root string) error {
			if err := drive.NewInstance(root, "labelmap", "lm", bsCfg); err != nil {
				return err
			}
			if err := drive.NewInstance(root, "tarsupervoxels", name, map[string]string{"Extension": "dat"}); err != nil {
				return err
			}
			return setSync(root, name, "lm")
		},
		ingest: lmIngest("lm"),
		content: func(uuid string) error {
			if err := lmc(uuid); err != nil {
				return err
			}
			for _, id := range []int{1, 3, 5} {
				if err := okOrErr(drive.Post(fmt.Sprintf("node/%s/%s/supervoxel/%d", uuid, name, id), []byte(fmt.Sprintf("data-%d", id))), "tarsupervoxels POST supervoxel"); err != nil {
					return err
				}
			}
			return nil
		},
		reads: func() []readReq {
			g := func(t string) readReq { return readReq{Method: "GET", Tail: name + "/" + t} }
			out := []readReq{{Method: "GET", Tail: name + "/exists", Body: []byte("[1,2,3,4,5,6]")}}
			for _, id := range []int{1, 2, 3, 4, 5, 6} {
				out = append(out, g(fmt.Sprintf("supervoxel/%d", id)), readReq{Method: "GET", Tail: fmt.Sprintf("%s/tarfile/%d", name, id), Norm: "tar"}, readReq{Method: "GET", Tail: fmt.Sprintf("%s/missing/%d", name, id), Norm: "jsonset"})
			}
			return out
		},
		valid: map[string]validFn{
			"supervoxel": func(q sweepReq) (string, []byte) {
				return fmt.Sprintf("/%d", 1+pick(q.A, 6)), []byte(fmt.Sprintf("new-%d", pick(q.B, 5)))
			},
			"load": func(q sweepReq) (string, []byte) {
				return "", tarBody([]int{1 + pick(q.A, 6), 1 + pick(q.B, 6)}, "dat")
			},
		},
	}
}

const tileMeta = `{"MinTileCoord":[0,0,0],"MaxTileCoord":[1,1,1],"Levels":{"0":{"Resolution":[10.0,10.0,10.0],"TileSize":[32,32,32]},"1":{"Resolution":[20.0,20.0,20.0],"TileSize":[32,32,32]}}}`

func imagetileSpec() *typeSpec {
	name := "tiles"
	return &typeSpec{
		name: "imagetile", target: name,
		setup: func(root string) error {
			if err := drive.NewInstance(root, "imagetile", name, nil); err != nil {
				return err
			}
			return okOrErr(drive.Post("node/"+root+"/"+name+"/metadata", []byte(tileMeta)), "imagetile POST metadata")
		},
		content: func(uuid string) error {
			for _, t := range []string{"xy/0/0_0_0", "xy/0/1_0_0", "xz/1/0_0_0"} {
				if err := okOrErr(drive.Post("node/"+uuid+"/"+name+"/tile/"+t, []byte("tile-"+t)), "imagetile POST tile"); err != nil {
					return err
				}
			}
			return nil
		},
		reads: func() []readReq {
			g := func(t string) readReq { return readReq{Method: "GET", Tail: name + "/" + t} }
			return []readReq{g("tile/xy/0/0_0_0?noblanks=true"), g("tile/xy/0/1_0_0?noblanks=true"), g("tile/xz/1/0_0_0?noblanks=true"), g("tile/xy/0/0_1_0?noblanks=true"), g("tile/yz/0/0_0_0?noblanks=true")}
		},
		valid: map[string]validFn{
			"tile": func(q sweepReq) (string, []byte) {
				return fmt.Sprintf("/%s/0/%d_%d_0", []string{"xy", "xz", "yz"}[pick(q.A, 3)], pick(q.B, 2), pick(q.A, 2)), []byte(fmt.Sprintf("newtile-%d", pick(q.B, 4)))
			},
			"metadata": func(q sweepReq) (string, []byte) { return "", []byte(tileMeta) },
		},
	}
}

func multichanSpec() *typeSpec {
	name := "mc"
	return &typeSpec{
		name: "multichan16", target: name,
		setup:   func(root string) error { return drive.NewInstance(root, "multichan16", name, nil) },
		content: func(uuid string) error { return nil },
		reads:   func() []readReq { return []readReq{{Method: "GET", Tail: name + "/0_1_2/16_16_16/0_0_0", Body: nil}} },
		valid:   map[string]validFn{},
	}
}

// specFor returns the fixture description of a compiled type, nil if the harness has none (then only a
// bare instance with junk requests is swept).
func specFor(typename string) *typeSpec {
	switch typename {
	case "keyvalue":
		return kvSpec()
	case "neuronjson":
		return njSpec()
	case "roi":
		return roiSpec()
	case "labelmap":
		return lmSpec()
	case "annotation":
		return annSpec()
	case "labelsz":
		return lszSpec()
	case "labelblk":
		return labelblkSpec(true)
	case "labelvol":
		return labelvolSpec()
	case "labelarray":
		return labelarraySpec()
	case "tarsupervoxels":
		return tarsvSpec()
	case "imagetile":
		return imagetileSpec()
	case "multichan16":
		return multichanSpec()
	case "uint8blk", "uint16blk", "uint32blk", "uint64blk", "float32blk", "rgba8blk":
		return imgSpec(typename)
	}
	name := "x"
	return &typeSpec{
		name: typename, target: name,
		setup:   func(root string) error { return drive.NewInstance(root, typename, name, nil) },
		content: func(uuid string) error { return nil },
		reads:   func() []readReq { return nil },
		valid:   map[string]validFn{},
	}
}

// commonValid are instance-level endpoints every type serves.
var junkTails = []string{"", "/1", "/0_0_0", "/0_1_2/16_16_16/0_0_0", "/k1", "/1/2", "/5?x=1", "/16_16_16/0_0_0"}
var junkBodies = [][]byte{nil, []byte("[]"), []byte("{}"), []byte("[1,2]"), []byte(`{"a":"b"}`), []byte("xyz"), make([]byte, 8), make([]byte, 16), []byte(`[[1,1,1]]`), []byte(`{"sync":""}`)}
