// Package c02 holds the checks of property C02 (committed versions are immutable).  This file is the
// findings report of the package (doc comment only, no code).
//
// # Findings on the unchanged tree
//
// All signatures below fail on the unchanged tree, were reproduced in a fresh process through
// `VERIF_REPLAY=<fail record> go test -run 'TestReplay$'`, and are kept failing by the checks.  The
// generators steer around each one when it is listed in $VERIF_KNOWN_SIGS (stats.Excluded counts the
// altered cases), so the search continues behind them.  One fail record per signature is in
// props/c02/replays/ (each verified to replay with exactly its signature), the matching KNOWN_FINDINGS lines
// are in props/c02/known_entries.txt.  To list every gate signature deterministically:
//
//	VERIF_C02_LIST_ALL=1 go test ... -run 'TestC02GateSweepDirected$' -v   (prints DIRECTED-FINDING lines)
//
// ## F1 — requests with a verb the gates do not enumerate write to committed versions (16 signatures)
//
//	C02/labelmap/raw/unlisted-method/committed-changed                 PATCH|HEAD node/<V>/lm/raw/0_1_2/16_16_16/<off>?mutate=true, body = 16^3 uint64
//	C02/labelmap/raw/unlisted-method/read-only-changed                 HEAD, same request, server in read-only mode, open or committed node
//	C02/labelmap/blocks/unlisted-method/committed-changed              PATCH|HEAD node/<V>/lm/blocks, body = one gzip block record
//	C02/labelmap/blocks/unlisted-method/read-only-changed              HEAD
//	C02/labelmap/ingest-supervoxels/unlisted-method/committed-changed  PATCH|HEAD node/<V>/lm/ingest-supervoxels
//	C02/labelmap/ingest-supervoxels/unlisted-method/read-only-changed  HEAD
//	C02/labelmap/ingest-supervoxels/GET/committed-changed              GET with the same body
//	C02/labelmap/ingest-supervoxels/GET/read-only-changed              GET, read-only mode
//	C02/labelmap/extents/unlisted-method/committed-changed             PATCH|HEAD node/<V>/lm/extents, body {"MinPoint":[0,0,0],"MaxPoint":[63,63,63]}
//	C02/labelmap/extents/unlisted-method/read-only-changed             HEAD
//	C02/labelmap/extents/GET/committed-changed                         GET with the same body
//	C02/labelmap/extents/GET/read-only-changed                         GET, read-only mode
//	C02/labelarray/raw/unlisted-method/committed-changed               PATCH|HEAD node/<V>/la/raw/0_1_2/16_16_16/<off>?mutate=true
//	C02/labelarray/raw/unlisted-method/read-only-changed               HEAD
//	C02/labelarray/blocks/unlisted-method/committed-changed            PATCH|HEAD node/<V>/la/blocks
//	C02/labelarray/blocks/unlisted-method/read-only-changed            HEAD
//
// Minimal failing case (shrunk by rapid, single request):
//
//	{"type":"labelmap","mode":"default","reqs":[{"target":"inst","method":"PATCH","kw":"raw","valid":true,"a":1,"b":0,"junk":0}]}
//
// i.e. root R committed, V = newversion(R) with a 32^3 label volume + one merge, V committed;
// `PATCH /api/node/<V>/lm/raw/0_1_2/16_16_16/16_0_0?mutate=true` with a solid block answers 200 and the stored
// block key of version V (raw Badger dump restricted to V's version id) has a new value; GET raw at V returns
// the new voxels.  The same request as POST is refused ("Cannot do POST on endpoint "raw" of locked node").
// In read-only mode (`server.VerifSetModes(true,false)`) HEAD (and, for extents / ingest-supervoxels, GET)
// with the same body changes open and committed nodes alike.
//
// Analysis.  The two gates enumerate verbs, the handlers do not:
//   - locked-node gate: /repo/server/web.go:1289 asks DataService.IsMutationRequest, whose default
//     (/repo/datastore/datainstance.go:859-867) is true only for "post", "put", "delete"; every other verb
//     (PATCH, HEAD, any extension method) reaches the handler of a committed node;
//   - read-only mode: /repo/server/web.go:1138 (repoRawSelector) and :1194 let "get" and "head" through;
//   - labelmap raw: /repo/datatype/labelmap/handlers.go:945-968 `if method == "get" {...} else { <store voxels> }`;
//   - labelmap blocks: /repo/datatype/labelmap/handlers.go:209-243, same shape (else -> storeBlocks);
//   - labelmap ingest-supervoxels: /repo/datatype/labelmap/handlers.go:248-262 never looks at the verb
//     (ingestBlocks for GET too);
//   - labelmap extents: /repo/datatype/labelmap/labelmap.go:2771-2780 never looks at the verb; SetExtents
//     (/repo/datatype/imageblk/imageblk.go:1108-1131) stores under MetaTKey in the version of the request, so
//     the extents are versioned data;
//   - labelarray raw / blocks: /repo/datatype/labelarray/labelarray.go:3086-3101 and :2906-2932, same
//     `get ... else store` shape.
//
// imageblk and labelblk refuse every verb but GET/POST at the top of ServeHTTP and are not affected; keyvalue,
// neuronjson, annotation, roi, labelsz, labelvol, tarsupervoxels, imagetile switch on the verb per endpoint.
// The property statement covers this ("every request that would change versioned data at that version ...
// is refused"); the quantifier's "every mutating HTTP method" includes PATCH.  Not fixed here (sub-agents do
// not edit /repo).  A fix that removes the whole class: make the gates positive lists (only GET/HEAD/OPTIONS
// pass a locked node or read-only mode unless whitelisted) and give the six handlers a verb check.
//
// ## F2 — roi `partition` of a committed version follows later writes (1 signature listed, 1 sibling)
//
//	C02/stability/roi/partition/changed-by/roiput      (listed)
//	C02/stability/roi/partition/changed-by/roidel      (same read, same root cause; never met while the first is listed
//	                                                    because the read is then left out of the snapshots)
//
// Minimal failing case (TestC02ReadStability, shrunk):
//
//	{"pre":[],"post":[{"kind":"roiput","node":0,"a":1,"b":0}]}
//
// V holds the ROI [[0,0,0,1],[0,1,0,0],[1,0,1,1]] (block z 0..1) and is committed; POST roi [[1,0,0,1]] in the
// child of V; GET roi/partition?batchsize=2 at V then reports "MinChunk":[0,0,1] instead of [0,0,0] (after a
// DELETE roi in the child: MinChunk z = 2147483647, NumTotalBlocks 24 instead of 8).  GET roi, mask and
// ptquery at V are unchanged.
//
// Analysis.  Partition() (/repo/datatype/roi/roi.go:1099-1111, 1240-1253) takes the z range of the ROI from
// d.MinZ / d.MaxZ, which are instance-level Properties (roi.go:251-259) persisted in the instance metadata,
// not per version; POST roi first calls Delete (roi.go:624-628), which resets them (roi.go:588-589), and then
// recomputes them from the posted spans only (roi.go:653-657), whatever version the request addresses.  So a read of versioned
// content at a committed version depends on the last write anywhere in the DAG.  The partition is derived
// from the ROI spans the statement lists; the check therefore counts it as versioned content.
//
// ## F3 — labelmap GET blocks answers differently from one request to the next at a committed merge node (1 signature)
//
//	C02/stability/lm/blocks/unstable-read
//
// First reported by the thorough tier as C02/stability/lm/blocks/changed-by/{branch,newinst,annmove,commit,merge,
// kvput}: the operation in the signature was whatever came next; no operation changes anything (the mismatch
// also shows between the two reads right after the node's own commit).  Minimal failing history
// (replays/C02-found-stability-lm-blocks-unstable-read.json; the first five operations, the rest only makes
// the check look again, since the answer depends on goroutine scheduling — about one look in seven differs):
//
//	{"pre":[],"post":[{"kind":"branch","node":0},{"kind":"lmraw","node":0,"a":7},{"kind":"commit"},{"kind":"merge"},{"kind":"commit"}]}
//
// V holds the eight label blocks of the fixture and is committed; a sibling branch off the root writes block
// (1,1,1) and is committed; POST repo/<root>/merge of the two is accepted (conflict-free merges are not
// checked, conflicts are reported lazily when the key is read: datastore/repo_local.go:2010-2012, :2183,
// keyvalue_test.go:770); the merge child is committed.  GET lm/blocks/32_32_32/0_0_0?compression=uncompressed
// at the merge child then answers, from one request to the next: 200 with 6 complete block records and the
// text "unable to GET data ...: found multiple kv for key ... among parents"; 200 with 5, 4 or 2 records and
// the text; 200 with 2 records, the 16-byte header of a third and the text; 200 with 5 records and no text; 400
// with the text only.  Which records come first also varies (normalised by the check).
//
// Analysis.  sendBlocksVolume (/repo/datatype/labelmap/blocks.go:496-607) starts a sender goroutine that
// writes to the http.ResponseWriter (:518-530) and one transcoder goroutine per block read (:581-585).  When
// ProcessRange fails on the conflicting key it returns at once (:589-591) without wg.Wait() / close(ch); the
// handler (/repo/datatype/labelmap/handlers.go:232-234) writes the error text while the sender and the
// transcoders are still writing blocks.  The race detector reports 111 races for the minimal history
// (server.BadRequest in the handler goroutine against writeBlock in sendBlocksVolume.func1, on
// mutil.basicWriter and the recorder); the channel is never closed, so the sender and the late transcoders
// leak; with a real net/http connection the late writes go to a ResponseWriter whose handler has returned.
// sendBlocksSpecific has the same shape (:448-468).  Patch: fix-stability.patch (wait and close before every
// return after the sender was started); with it the answer is the same on every request (the six blocks before
// the conflicting key, then the text), 0 labelmap races, and 4 x 200 histories pass under load.
// Without the patch the signature can be listed; the read lm/blocks is then left out of the snapshots.
//
// ## F4 — neuronjson: a version committed while it was the head of master changes its answers when the head moves on (1 signature)
//
//	C02/stability/nj/all/changed-by/newversion
//
// Same root cause as the listed C03 finding C03/neuronjson/memory-stale-after-head-moved-to-merge-lineage.
// First reported by the thorough tier as .../changed-by/lmmerge: the write needed an open node, the harness
// created one with POST newversion, and that is what moved the head (implicit children are now verified on
// their own).  Minimal failing history (replays/C02-known-stability-nj-all-changed-by-newversion.json):
//
//	{"pre":[],"post":[{"kind":"newversion","node":1},{"kind":"commit"},{"kind":"merge"},{"kind":"njput","a":1,"b":2},
//	                  {"kind":"commit"},{"kind":"newversion","node":3},{"kind":"commit"},{"kind":"newversion","node":4}]}
//
// V (node 1) and its child (node 2) are committed and merged (node 3, filed on master but not its head:
// datastore/repo_local.go:2507-2530); POST nj/key/2 {"a":"w2","z":2} at node 3 goes to the store only; node 3 is
// committed; POST newversion on node 3 makes node 4 the head of master, so node 4 is answered from the one
// in-memory head database (datatype/neuronjson/memstore.go:26-48), which never saw the write at node 3:
// GET nj/all at node 4 shows body 2 with "a":"v1"; node 4 is committed with that answer; POST newversion on node
// 4 moves the head to node 5 and node 4 is answered from the store: "a":"w2","z":2.  The committed version
// reads differently after an operation that only created a child.  Not a small patch (see the C03 entry); when
// the signature is listed the generator creates children of merge nodes with POST branch, which leaves the head
// of master alone (sigHeadJump in c02_stability_test.go), and every neuronjson read stays in the snapshots.
//
// # Notes for the maintainer (not C02 violations)
//
// N1 (labelmap, branch isolation — reported to the maintainer as a lead for C08/C12/C13).  Ingesting voxels
// of a supervoxel that has a mapping entry on a NON-ancestor version files its block changes under label 0:
// /repo/datatype/labelmap/vcache.go:78-93 mapLabel returns vm.value() = (0,false) when fm[sv] exists but
// holds no version of the caller's ancestry, and /repo/datatype/labelmap/labelidx.go:948 ignores the flag.
// Repro: merge [3,4] at V, then POST the same volume at a sibling branch: GET index/4 there is 404 and
// POST merge [3,4] answers "can't merge non-existent label 4".  The fixtures of this package therefore
// ingest every twin before the first mapping operation (typeSpec.ingest, fixture.pool).
//
// N2 (neuronjson).  While V is the leaf of the master branch its reads come from the in-memory head (keys in
// numeric order); after POST newversion on V they come from the store (lexicographic order): keys, keyrange,
// keyrangevalues, all change order when a child is created.  The help text promises no order for these, so
// the snapshots compare them as sets; the memory/store differences of content are props/c16's findings.
//
// N3 (process death, concurrency).  The repo info JSON (GET repo/<uuid>/info, datastore.GetRepoJSON, and so
// drive.Settle -> drive.InstanceNames) marshals every instance; labelarray.(*Data).MarshalJSON
// (/repo/datatype/labelarray/labelarray.go:1227) and labelmap's (/repo/datatype/labelmap/labelmap.go:2051,
// 2085) read the MaxLabel map without mlMu while the background updateMaxLabel goroutine of a label write
// holds mlMu and writes it: "fatal error: concurrent map iteration and map write" killed 2 of ~60 sweep
// processes.  This package keeps its own instance list and reads note/log/commit through the node GET
// routes, so the repo info JSON is off its hot path.  A second pair with the same fatal error needs no
// harness call at all: labelvol.(*Data).GobEncode (/repo/datatype/labelvol/labelvol.go:872-882) gob-encodes
// Properties with the MaxLabel map (labelvol.go:468) without mlMu; a labelblk POST raw starts
// `go PostExtents` (/repo/datatype/imageblk/imageblk.go:1434-1474), which on grown extents calls
// datastore.SaveDataByVersion = gob-encode of every instance of the repo, while labelvol's sync goroutine
// for the same write stores into MaxLabel (labelvol.go:736, 813).  Seen once in 15 runs of 40 sweep cases;
// the labelblk/labelvol fixtures now write background voxels over the whole extent on the root
// (labelblkZero), so later writes do not grow the extents.  If a shard still dies with this fatal error the
// driver reports the run as inconclusive, not as a violation.
//
// N4 (input validation, C20's subject; counted as sweep/panic-response-on-malformed-request/...).  Junk
// requests made the recover middleware answer "Panic detected": POST|DELETE lm/proximity, lm/index, lm/merge
// and lb/blocks without the URL parts they index (parts[4]); GET img/isotropic/... after POST resolution with
// body `[]` (instance-level VoxelSize becomes empty).
//
// N6 (neuronjson POST key, seen by the race detector while working on F3).  The Kafka-logging goroutine of
// POST key assigns the handler's own err variable (`if err = d.PublishKafkaMsg(jsonmsg)`,
// /repo/datatype/neuronjson/neuronjson.go:2487) while the handler assigns the result of PutData to it (:2497)
// and tests it: a failed PutData can be reported as success.  `if err := ...` in the goroutine removes it.
//
// N5 (answers whose order is not content).  Found by the fixture self-test (TestC02Fixtures) and normalised
// before comparison: labelmap/labelarray GET blocks and specificblocks (records in worker order), sparsevol
// rles (run order), sparsevol srles/blocks (left out), index (protobuf map order), supervoxels,
// existing-labels, mappings (map iteration); annotation element lists; neuronjson all, fields;
// tarsupervoxels tarfile, missing.
package c02
