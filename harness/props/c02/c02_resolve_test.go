// C02 — committed versions are immutable: POST repo/<uuid>/resolve.
//
// Resolve removes conflicting pairs "using the priority established by parents": the losing parents get a
// child version that holds the deletions, and the merge is made from those children.  The committed parents
// themselves must stay as they were.  Cases: 1-3 keyvalue instances named in the "data" list in a generated
// order, 2-3 committed parents on separate branches, per (instance, key) a generated set of parents that wrote
// the key — so an instance without conflicts can precede or follow one with conflicts, and a parent can lose
// in one instance and not in another.
package c02

import (
	"encoding/json"
	"fmt"
	"sort"
	"strings"
	"testing"

	"github.com/janelia-flyem/dvid/datastore"
	"github.com/janelia-flyem/dvid/dvid"
	"pgregory.net/rapid"

	"verif/drive"
	"verif/stats"
)

type resolveCase struct {
	Parents int `json:"parents"` // 2 or 3
	// Writes[i][k] = bit set of parents that wrote key k of instance i (bit 3: the root wrote it too)
	Writes [][]int `json:"writes"`
	Order  []int   `json:"order"`  // order of the instances in the "data" list (indices, may leave some out)
	PFirst int     `json:"pfirst"` // rotation of the parent list in the request
}

var resolveKeys = []string{"a", "b", "c"}

func resolveObserve(root, uuid string, names []string) (string, error) {
	v, err := datastore.VersionFromUUID(dvid.UUID(uuid))
	if err != nil {
		return "", err
	}
	dump, err := rawDump(root, names, v)
	if err != nil {
		return "", err
	}
	var lines []string
	for k, val := range dump {
		lines = append(lines, "raw "+k+"="+val)
	}
	sort.Strings(lines)
	for _, n := range names {
		for _, k := range resolveKeys {
			r := drive.Get("node/" + uuid + "/" + n + "/key/" + k)
			lines = append(lines, fmt.Sprintf("GET %s/key/%s -> %d %q", n, k, r.Code, r.Body))
		}
	}
	return strings.Join(lines, "\n"), nil
}

func checkResolve(c resolveCase) error {
	root, err := drive.NewRepo()
	if err != nil {
		return fmt.Errorf("harness: %v", err)
	}
	var names []string
	for i := range c.Writes {
		n := fmt.Sprintf("rkv%d", i)
		if err := drive.NewInstance(root, "keyvalue", n, nil); err != nil {
			return fmt.Errorf("harness: %v", err)
		}
		names = append(names, n)
	}
	put := func(uuid string, i, k int, who string) error {
		if r := drive.Post("node/"+uuid+"/"+names[i]+"/key/"+resolveKeys[k], []byte(fmt.Sprintf("%s-i%d-%s", who, i, resolveKeys[k]))); !r.OK() {
			return fmt.Errorf("harness: put refused: %s", r)
		}
		return nil
	}
	for i, ks := range c.Writes {
		for k, bits := range ks {
			if bits&8 != 0 {
				if err := put(root, i, k, "root"); err != nil {
					return err
				}
			}
		}
	}
	if err := drive.Commit(root); err != nil {
		return fmt.Errorf("harness: %v", err)
	}
	committed := []string{root}
	var parents []string
	for p := 0; p < c.Parents; p++ {
		u, err := drive.Branch(root, fmt.Sprintf("p%d", p))
		if err != nil {
			return fmt.Errorf("harness: %v", err)
		}
		for i, ks := range c.Writes {
			for k, bits := range ks {
				if bits&(1<<uint(p)) != 0 {
					if err := put(u, i, k, fmt.Sprintf("parent%d", p)); err != nil {
						return err
					}
				}
			}
		}
		if err := drive.Commit(u); err != nil {
			return fmt.Errorf("harness: %v", err)
		}
		parents = append(parents, u)
		committed = append(committed, u)
	}
	snaps := map[string]string{}
	for _, u := range committed {
		s, err := resolveObserve(root, u, names)
		if err != nil {
			return fmt.Errorf("harness: %v", err)
		}
		snaps[u] = s
	}
	var data []string
	for _, i := range c.Order {
		data = append(data, names[i%len(names)])
	}
	var ps []string
	for j := range parents {
		ps = append(ps, parents[(j+c.PFirst)%len(parents)])
	}
	body, _ := json.Marshal(map[string]interface{}{"data": data, "parents": ps, "note": "resolve"})
	r := drive.Post("repo/"+root+"/resolve", body)
	if r.IsPanic() {
		return stats.Violf("C02/resolve/panic", "POST resolve %s: %s", body, r)
	}
	for j, u := range committed {
		now, err := resolveObserve(root, u, names)
		if err != nil {
			return fmt.Errorf("harness: %v", err)
		}
		if now != snaps[u] {
			return stats.Violf("C02/resolve/committed-parent-changed", "POST repo/%s/resolve %s -> %d %s: committed node %d (0 = root, then the parents in creation order) no longer reads as at its commit: %s", root, body, r.Code, r.Body, j, firstDiff(snaps[u], now))
		}
	}
	return nil
}

func TestC02Resolve(t *testing.T) {
	rapid.Check(t, func(t *rapid.T) {
		var c resolveCase
		c.Parents = rapid.IntRange(2, 3).Draw(t, "parents")
		ninst := rapid.IntRange(1, 3).Draw(t, "ninst")
		for i := 0; i < ninst; i++ {
			var ks []int
			for k := range resolveKeys {
				_ = k
				ks = append(ks, rapid.SampledFrom([]int{0, 1, 2, 3, 3, 5, 6, 7, 8, 9, 11, 15}).Draw(t, "bits"))
			}
			c.Writes = append(c.Writes, ks)
		}
		c.Order = rapid.Permutation(func() []int {
			var x []int
			for i := 0; i < ninst; i++ {
				x = append(x, i)
			}
			return x
		}()).Draw(t, "order")
		if ninst > 1 && rapid.IntRange(0, 4).Draw(t, "leave-out") == 0 {
			c.Order = c.Order[:ninst-1]
		}
		c.PFirst = rapid.IntRange(0, 2).Draw(t, "pfirst")
		stats.SetCur("C02", "TestC02Resolve", c)
		if !stats.Judge(t, "C02", "TestC02Resolve", checkResolve(c), c) {
			return
		}
		// classes: which named instances hold a conflict (a key written by >= 2 of the parents)
		mask := (1 << uint(c.Parents)) - 1
		conflicted := make([]bool, len(c.Order))
		any := false
		for j, i := range c.Order {
			for _, bits := range c.Writes[i%len(c.Writes)] {
				b := bits & mask
				if b&(b-1) != 0 {
					conflicted[j] = true
					any = true
				}
			}
		}
		labels := []string{"resolve"}
		if any {
			labels = append(labels, "resolve/has-conflict")
		}
		for j := 1; j < len(conflicted); j++ {
			if conflicted[j] && !conflicted[j-1] {
				labels = append(labels, "resolve/conflict-free-instance-before-conflicted-one")
			}
			if conflicted[j] && conflicted[j-1] {
				labels = append(labels, "resolve/two-conflicted-instances")
			}
		}
		stats.Record(stats.HashJSON(c), any, labels, func() interface{} { return map[string]interface{}{"test": "resolve", "case": c} })
	})
}
