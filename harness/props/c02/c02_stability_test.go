package c02

import (
	"fmt"
	"sort"
	"strings"
	"testing"
	"time"

	"github.com/janelia-flyem/dvid/server"
	"pgregory.net/rapid"

	"verif/drive"
	"verif/stats"
)

// ------------------------------------------------------------------ read stability: the case

// stabOp is one operation of the history; Node / A / B are interpreted against the state at execution time.
type stabOp struct {
	Kind string `json:"kind"`
	Node int    `json:"node"`
	A    int    `json:"a"`
	B    int    `json:"b"`
}

type stabCase struct {
	Pre  []stabOp `json:"pre"`  // writes on the node that becomes V, before its commit
	Post []stabOp `json:"post"` // history after the commit of V (<= 25)
}

// (rapid's SampledFrom favours the front of a list: the kinds that matter most come first)
var writeKinds = []string{"lmmerge", "lmcleave", "lmsplitsv", "annput", "lmrenumber", "njput", "lmraw", "anndel", "roiput", "imgput", "kvput", "annmove", "njdel", "lmblocks", "roidel", "kvdel", "njreplace", "kvbatch"}
var dagKinds = []string{"branch", "newversion", "commit", "merge", "delinst", "newinst"}

type snode struct {
	uuid    string
	locked  bool
	parents []int
	branch  string
	snap    *obs // taken when the node was committed
}

type stabWorld struct {
	root    string
	nodes   []*snode
	kids    map[int]map[string]bool // node -> branches its children are on
	reads   []readReq
	prot    []string // instances whose content is under observation
	extra   []string // disposable instances (deletion targets)
	nbranch int
	ninst   int
	cls     map[string]int
}

var protInstances = []string{"kv", "nj", "roi", "img", "lm", "ann"}

func stabReads() []readReq {
	var out []readReq
	out = append(out, kvSpec().reads()...)
	out = append(out, njSpec().reads()...)
	out = append(out, roiSpec().reads()...)
	out = append(out, imgSpec("uint8blk").reads()...)
	for _, r := range lmReads("lm") {
		// a lighter list than the sweep's: labels 2 and 6 add nothing here
		if strings.HasSuffix(r.Tail, "/2") || strings.HasSuffix(r.Tail, "/6") {
			continue
		}
		out = append(out, r)
	}
	out = append(out, annReads("ann")...)
	kept := out[:0]
	for _, r := range out {
		if sig, known := knownUnstableRead(r); known {
			stats.Excluded(sig)
			continue
		}
		kept = append(kept, r)
	}
	return kept
}

func newStabWorld() (*stabWorld, error) {
	root, err := drive.NewRepo()
	if err != nil {
		return nil, err
	}
	w := &stabWorld{root: root, kids: map[int]map[string]bool{}, reads: stabReads(), prot: protInstances, cls: map[string]int{}}
	mk := func(typ, name string, cfg map[string]string) error { return drive.NewInstance(root, typ, name, cfg) }
	steps := []func() error{
		func() error { return mk("keyvalue", "kv", nil) },
		func() error { return mk("neuronjson", "nj", nil) },
		func() error { return mk("roi", "roi", bsCfg) },
		func() error { return mk("uint8blk", "img", bsCfg) },
		func() error { return mk("labelmap", "lm", bsCfg) },
		func() error { return mk("annotation", "ann", nil) },
		func() error { return setSync(root, "ann", "lm") },
		func() error { return mk("keyvalue", "x0", nil) },
		func() error { return mk("roi", "x1", bsCfg) },
		func() error { return okOrErr(drive.Post("node/"+root+"/x0/key/a", []byte("1")), "x0 content") },
		func() error { return okOrErr(drive.Post("node/"+root+"/x1/roi", []byte("[[0,0,0,3]]")), "x1 content") },
		func() error { return drive.Commit(root) },
	}
	for _, f := range steps {
		if err := f(); err != nil {
			return nil, err
		}
	}
	w.extra = []string{"x0", "x1"}
	trackRepo(root)
	w.nodes = []*snode{{uuid: root, locked: true}}
	n1, err := drive.NewVersion(root)
	if err != nil {
		return nil, err
	}
	w.nodes = append(w.nodes, &snode{uuid: n1, parents: []int{0}})
	w.kids[0] = map[string]bool{"": true}
	// base content of the node that becomes V: every protected instance holds something, every block of the
	// two volumes is written (later voxel writes are therefore overwrites and use mutate=true)
	base := []func(string) error{kvSpec().content, njSpec().content, roiSpec().content, lmIngest("lm"), lmContent("lm"), annContent("ann"),
		func(uuid string) error {
			r := drive.Post("node/"+uuid+"/img/raw/0_1_2/32_32_32/0_0_0", imgBytes(32*32*32, 1, 1))
			return okOrErr(r, "img POST raw")
		}}
	for _, f := range base {
		if err := f(n1); err != nil {
			return nil, err
		}
	}
	settle()
	return w, nil
}

func (w *stabWorld) isDescendant(n, anc int) bool {
	if n == anc {
		return true
	}
	for _, p := range w.nodes[n].parents {
		if w.isDescendant(p, anc) {
			return true
		}
	}
	return false
}

func (w *stabWorld) commit(i int) error {
	n := w.nodes[i]
	if n.locked {
		return nil
	}
	settleFirm()
	if err := drive.Commit(n.uuid); err != nil {
		return fmt.Errorf("harness: commit: %v", err)
	}
	n.locked = true
	// the reference snapshot must not catch background processing of the node's last writes half-way: it is
	// taken twice, and once more after a deep settle if the two differ
	settleFirm()
	snap, err := observeOnly(w.root, n.uuid, w.reads, w.prot)
	if err != nil {
		return err
	}
	settleFirm()
	again, err := observeOnly(w.root, n.uuid, w.reads, w.prot)
	if err != nil {
		return err
	}
	if kind, _ := diffObs(snap, again); kind != "" {
		deepSettle()
		w.cls["snapshot-retaken-after-deep-settle"]++
		if again, err = observeOnly(w.root, n.uuid, w.reads, w.prot); err != nil {
			return err
		}
		// everything acknowledged before the commit has been processed now: an answer that still changes
		// from one read to the next, with no operation in between, is not lag
		if err := w.unstableRead(i, again, "right after its commit"); err != nil {
			return err
		}
	}
	n.snap = again
	return nil
}

// unstableRead re-reads committed node i a few times with no operation in between (the caller has settled
// deeply) and reports a violation, under a signature of its own, when one of the observations differs from
// ref.  It separates "the answer of the committed node is not a function of the stored state" from "a later
// operation changed it"; without it such a read is reported as changed-by/<whatever operation came next>.
func (w *stabWorld) unstableRead(i int, ref *obs, when string) error {
	n := w.nodes[i]
	for k := 0; k < 4; k++ {
		o, err := observeOnly(w.root, n.uuid, w.reads, w.prot)
		if err != nil {
			return err
		}
		if kind, msg := diffObs(ref, o); kind != "" {
			return stats.Violf("C02/stability/"+stabWhat(kind, msg)+"/unstable-read", "committed node %d (%s state) answers differently on consecutive reads with no operation in between (%s): %s", i, kind, when, msg)
		}
	}
	return nil
}

// openNode resolves a node operand to an open node (creating a child of the newest committed leaf if none is open).
// An implicit child is an operation of its own (POST newversion moves the head of the branch): the committed
// nodes are verified right after it, so that what it changes is not attributed to the write that follows.
func (w *stabWorld) openNode(sel int) (int, error) {
	var open []int
	for i, n := range w.nodes {
		if !n.locked {
			open = append(open, i)
		}
	}
	if len(open) > 0 {
		return open[pick(sel, len(open))], nil
	}
	parent := len(w.nodes) - 1
	ni, err := w.child(parent, false)
	if err != nil {
		return 0, err
	}
	w.cls["applied/implicit-newversion"]++
	settle()
	how := "newversion"
	if w.nodes[ni].branch != w.nodes[parent].branch {
		how = "branch"
	}
	if err := w.verify(fmt.Sprintf("%s (implicit child of node %d for the next write)", how, parent)); err != nil {
		return 0, err
	}
	return ni, nil
}

// sigHeadJump is the one signature under which the neuronjson head-jump finding shows here (findings.go, F4):
// POST newversion on a DAG-merge node moves the head of master into a lineage the in-memory head database
// never loaded; the child answers from that stale database while it is the head and from the store once the
// head moves on.  When it is listed, children of merge nodes are created with POST branch (which leaves the
// head of master alone) instead of dropping the neuronjson reads from the snapshots.
const sigHeadJump = "C02/stability/nj/all/changed-by/newversion"

func (w *stabWorld) child(parent int, forceBranch bool) (int, error) {
	if err := w.commit(parent); err != nil {
		return 0, err
	}
	p := w.nodes[parent]
	if w.kids[parent] == nil {
		w.kids[parent] = map[string]bool{}
	}
	var uuid, br string
	var err error
	if !forceBranch && len(p.parents) > 1 && stats.IsKnown(sigHeadJump) {
		// steer around the listed finding by construction: no POST newversion on a merge node
		forceBranch = true
		stats.Excluded(sigHeadJump)
	}
	if !forceBranch && !w.kids[parent][p.branch] {
		br = p.branch
		uuid, err = drive.NewVersion(p.uuid)
	} else {
		w.nbranch++
		br = fmt.Sprintf("br%d", w.nbranch)
		uuid, err = drive.Branch(p.uuid, br)
	}
	if err != nil {
		return 0, fmt.Errorf("harness: new child of node %d: %v", parent, err)
	}
	w.kids[parent][br] = true
	w.nodes = append(w.nodes, &snode{uuid: uuid, parents: []int{parent}, branch: br})
	return len(w.nodes) - 1, nil
}

// write performs one data write on an open node; returns whether the server accepted it.
func (w *stabWorld) write(ni int, o stabOp) (bool, error) {
	uuid := w.nodes[ni].uuid
	q := sweepReq{A: o.A, B: o.B}
	do := func(method, inst, kw string, f validFn) (bool, error) {
		tail, body := f(q)
		r := drive.Do(method, "node/"+uuid+"/"+inst+"/"+kw+tail, body)
		if r.IsPanic() {
			return false, stats.Violf("C02/stability/"+o.Kind+"/panic", "%s %s/%s%s: %s", method, inst, kw, tail, r)
		}
		return r.OK(), nil
	}
	kv, nj, roi, img, lm, ann := kvSpec().valid, njSpec().valid, roiSpec().valid, imgSpec("uint8blk").valid, lmValid(), annValid()
	switch o.Kind {
	case "kvput":
		return do("POST", "kv", "key", kv["key"])
	case "kvdel":
		return do("DELETE", "kv", "key", kv["key"])
	case "kvbatch":
		return do("POST", "kv", "keyvalues", kv["keyvalues"])
	case "njput":
		return do("POST", "nj", "key", nj["key"])
	case "njreplace":
		q.B = 4 * (q.B / 4) // the builder's replace=true variant
		return do("POST", "nj", "key", nj["key"])
	case "njdel":
		return do("DELETE", "nj", "key", func(q sweepReq) (string, []byte) { return "/" + njKeys[pick(q.A, len(njKeys))], nil })
	case "roiput":
		return do("POST", "roi", "roi", roi["roi"])
	case "roidel":
		return do("DELETE", "roi", "roi", func(q sweepReq) (string, []byte) { return "", nil })
	case "imgput":
		return do("POST", "img", "raw", func(q sweepReq) (string, []byte) {
			t, b := img["raw"](q)
			if !strings.Contains(t, "mutate=true") {
				t += "?mutate=true"
			}
			return t, b
		})
	case "lmraw":
		return do("POST", "lm", "raw", lm["raw"])
	case "lmblocks":
		return do("POST", "lm", "blocks", lm["blocks"])
	case "lmmerge":
		return do("POST", "lm", "merge", lm["merge"])
	case "lmcleave":
		return do("POST", "lm", "cleave", lm["cleave"])
	case "lmsplitsv":
		return do("POST", "lm", "split-supervoxel", lm["split-supervoxel"])
	case "lmrenumber":
		return do("POST", "lm", "renumber", lm["renumber"])
	case "annput":
		return do("POST", "ann", "elements", ann["elements"])
	case "anndel":
		return do("DELETE", "ann", "element", ann["element"])
	case "annmove":
		return do("POST", "ann", "move", ann["move"])
	}
	return false, fmt.Errorf("harness: unknown write kind %q", o.Kind)
}

func (w *stabWorld) deleteInstance(name string) error {
	if err := stats.PanicGuard("C02/stability/rpc-repo-delete/panic", func() error {
		_, err := server.VerifRPC("repo", w.root, "delete", name, "")
		return err
	}); err != nil {
		if stats.SigOf(err) != "" {
			return err
		}
		return fmt.Errorf("harness: delete instance %s: %v", name, err)
	}
	// deletion is asynchronous: the instance leaves the repo when its keys are purged
	for i := 0; ; i++ {
		gone := true
		if instanceExists(w.root, name) {
			gone = false
		}
		if gone {
			untrackInstance(name)
			return nil
		}
		if i > 120000 {
			return fmt.Errorf("harness: instance %s still listed long after the delete command", name)
		}
		time.Sleep(time.Millisecond)
	}
}

// apply executes one op of the history.
func (w *stabWorld) apply(o stabOp, vIdx int) error {
	switch o.Kind {
	case "commit":
		var open []int
		for i, n := range w.nodes {
			if !n.locked {
				open = append(open, i)
			}
		}
		if len(open) == 0 {
			return nil
		}
		w.cls["applied/commit"]++
		return w.commit(open[pick(o.Node, len(open))])
	case "newversion", "branch":
		_, err := w.child(pick(o.Node, len(w.nodes)), o.Kind == "branch")
		w.cls["applied/"+o.Kind]++
		return err
	case "merge":
		var locked []int
		for i, n := range w.nodes {
			if n.locked && i > 0 {
				locked = append(locked, i)
			}
		}
		if len(locked) < 2 {
			return nil
		}
		a := locked[pick(o.A, len(locked))]
		b := locked[pick(o.A+1+pick(o.B, len(locked)-1), len(locked))]
		child, err := drive.Merge(w.root, []string{w.nodes[a].uuid, w.nodes[b].uuid})
		if err != nil {
			w.cls["refused/dag-merge"]++
			return nil // conflicts are the server's call
		}
		w.nodes = append(w.nodes, &snode{uuid: child, parents: []int{a, b}})
		for _, p := range []int{a, b} {
			if w.kids[p] == nil {
				w.kids[p] = map[string]bool{}
			}
			w.kids[p][""] = true
		}
		w.cls["applied/dag-merge"]++
		return nil
	case "newinst":
		ni, err := w.openNode(o.Node)
		if err != nil {
			return err
		}
		w.ninst++
		name := fmt.Sprintf("y%d", w.ninst)
		typ := []string{"keyvalue", "roi", "labelmap", "uint8blk", "annotation", "neuronjson"}[pick(o.A, 6)]
		if err := drive.NewInstance(w.nodes[ni].uuid, typ, name, bsCfg); err != nil {
			return fmt.Errorf("harness: %v", err)
		}
		w.extra = append(w.extra, name)
		trackInstance(name)
		w.cls["applied/new-instance"]++
		return nil
	case "delinst":
		if len(w.extra) == 0 {
			return nil
		}
		i := pick(o.A, len(w.extra))
		name := w.extra[i]
		w.extra = append(w.extra[:i], w.extra[i+1:]...)
		w.cls["applied/delete-other-instance"]++
		return w.deleteInstance(name)
	}
	ni, err := w.openNode(o.Node)
	if err != nil {
		return err
	}
	ok, err := w.write(ni, o)
	if err != nil {
		return err
	}
	if ok {
		w.cls["applied/"+o.Kind]++
		if vIdx > 0 {
			if w.isDescendant(ni, vIdx) {
				w.cls["post/write-in-descendant-of-V"]++
				if strings.HasPrefix(o.Kind, "lm") && o.Kind != "lmraw" && o.Kind != "lmblocks" {
					w.cls["post/label-mapping-op-in-descendant-of-V"]++
				}
			} else {
				w.cls["post/write-outside-lineage-of-V"]++
			}
		}
	} else {
		w.cls["refused/"+o.Kind]++
	}
	return nil
}

// verify compares every committed node with the snapshot taken at its commit.
func (w *stabWorld) verify(after string) error {
	return withDeepRetry(func() error {
		for i, n := range w.nodes {
			if n.snap == nil {
				continue
			}
			now, err := observeOnly(w.root, n.uuid, w.reads, w.prot)
			if err != nil {
				return err
			}
			if kind, msg := diffObs(n.snap, now); kind != "" {
				if err := w.unstableRead(i, now, "first noticed after "+after); err != nil {
					return err
				}
				what := "V"
				if i != 1 {
					what = fmt.Sprintf("node %d", i)
				}
				return stats.Violf(stabSig(kind, msg, strings.SplitN(after, " ", 2)[0]), "committed %s (%s state) differs from its snapshot at commit time after %s: %s", what, kind, after, msg)
			}
		}
		return nil
	})
}

// stabSig: one signature per (what changed, kind of the later operation).  For a read endpoint "what" is
// <instance>/<endpoint>, for stored keys "raw", for node metadata "meta-note|log|locked".
func stabSig(kind, msg, opKind string) string {
	return "C02/stability/" + stabWhat(kind, msg) + "/changed-by/" + opKind
}

func stabWhat(kind, msg string) string {
	what := strings.ReplaceAll(kind, "/", "-")
	if strings.HasPrefix(kind, "read/") {
		// msg starts with "<METHOD> <instance>/<endpoint>..."
		f := strings.Fields(msg)
		if len(f) >= 2 {
			what = strings.SplitN(f[1], "/", 2)[0] + "/" + endpointOf(f[1])
		}
	}
	return what
}

// knownUnstableRead reports whether a read of the snapshot list is the subject of a listed finding; such a
// read is left out of the snapshots (the history generator is untouched, so the search continues behind it).
func knownUnstableRead(r readReq) (string, bool) {
	what := strings.SplitN(r.Tail, "/", 2)[0] + "/" + endpointOf(r.Tail)
	if sig := "C02/stability/" + what + "/unstable-read"; stats.IsKnown(sig) {
		return sig, true
	}
	for _, ks := range [][]string{writeKinds, dagKinds} {
		for _, k := range ks {
			if sig := "C02/stability/" + what + "/changed-by/" + k; sig != sigHeadJump && stats.IsKnown(sig) {
				return sig, true
			}
		}
	}
	return "", false
}

func runStability(c stabCase) (map[string]int, error) {
	w, err := newStabWorld()
	if err != nil {
		return nil, fmt.Errorf("harness: %v", err)
	}
	for _, o := range c.Pre {
		if _, err := w.write(1, o); err != nil {
			return w.cls, err
		}
	}
	if err := w.commit(1); err != nil {
		return w.cls, err
	}
	for i, o := range c.Post {
		if err := w.apply(o, 1); err != nil {
			return w.cls, err
		}
		settle()
		if err := w.verify(fmt.Sprintf("%s (post op %d)", o.Kind, i)); err != nil {
			return w.cls, err
		}
	}
	return w.cls, nil
}

func checkStability(c stabCase) error {
	_, err := runStability(c)
	return err
}

func genStability(t *rapid.T) stabCase {
	var c stabCase
	op := func(kinds []string, label string) stabOp {
		return stabOp{Kind: rapid.SampledFrom(kinds).Draw(t, label), Node: rapid.IntRange(0, 7).Draw(t, "node"), A: rapid.IntRange(0, 60).Draw(t, "a"), B: rapid.IntRange(0, 60).Draw(t, "b")}
	}
	for i := rapid.IntRange(0, 6).Draw(t, "npre"); i > 0; i-- {
		c.Pre = append(c.Pre, op(writeKinds, "prekind"))
	}
	// most histories start by opening a sibling of V (branch off the root) and a child of V, in either order,
	// so that the writes that follow land both below V and beside it
	switch rapid.IntRange(0, 4).Draw(t, "prefix") {
	case 0:
	case 1, 2:
		c.Post = append(c.Post, stabOp{Kind: "branch", Node: 0}, stabOp{Kind: "newversion", Node: 1})
	default:
		c.Post = append(c.Post, stabOp{Kind: "newversion", Node: 1}, stabOp{Kind: "branch", Node: 0})
	}
	n := 25 - rapid.IntRange(0, 19).Draw(t, "npost") - len(c.Post)
	for i := 0; i < n; i++ {
		if rapid.IntRange(0, 9).Draw(t, "dag") < 3 {
			c.Post = append(c.Post, op(dagKinds, "dagkind"))
		} else {
			c.Post = append(c.Post, op(writeKinds, "kind"))
		}
	}
	return c
}

func TestC02ReadStability(t *testing.T) {
	rapid.Check(t, func(t *rapid.T) {
		c := genStability(t)
		stats.SetCur("C02", "TestC02ReadStability", c)
		cls, err := runStability(c)
		if !stats.Judge(t, "C02", "TestC02ReadStability", err, c) {
			return
		}
		labels := []string{"stability"}
		for k := range cls {
			labels = append(labels, "stability/"+k)
		}
		sort.Strings(labels)
		nt := cls["post/write-in-descendant-of-V"] > 0 && cls["post/write-outside-lineage-of-V"] > 0
		stats.Record(stats.HashJSON(c), nt, labels, func() interface{} { return map[string]interface{}{"test": "stability", "case": c} })
	})
}
