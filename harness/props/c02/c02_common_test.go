// C02 — committed versions are immutable.
//
// Shared machinery of the two checks: observation of one version (raw Badger dump restricted to the
// version's data keys, node note/log/locked flag, read-endpoint snapshot), the per-datatype fixtures
// (instances, content, read lists) and the per-endpoint valid request builders.
package c02

import (
	"archive/tar"
	"bytes"
	"crypto/sha256"
	"encoding/binary"
	"encoding/hex"
	"encoding/json"
	"fmt"
	"io"
	"os"
	"sort"
	"strings"
	"testing"
	"time"

	"github.com/janelia-flyem/dvid/datastore"
	"github.com/janelia-flyem/dvid/datatype/common/proto"
	"github.com/janelia-flyem/dvid/dvid"
	"github.com/janelia-flyem/dvid/server"
	"github.com/janelia-flyem/dvid/storage"
	pb "google.golang.org/protobuf/proto"

	// the remaining compiled-in data types of cmd/dvid (drive imports annotation, imageblk, keyvalue,
	// labelmap, labelsz, neuronjson, roi)
	_ "github.com/janelia-flyem/dvid/datatype/googlevoxels"
	_ "github.com/janelia-flyem/dvid/datatype/imagetile"
	_ "github.com/janelia-flyem/dvid/datatype/labelarray"
	_ "github.com/janelia-flyem/dvid/datatype/labelblk"
	_ "github.com/janelia-flyem/dvid/datatype/labelvol"
	_ "github.com/janelia-flyem/dvid/datatype/multichan16"
	_ "github.com/janelia-flyem/dvid/datatype/tarsupervoxels"

	"verif/drive"
	"verif/stats"
)

func TestMain(m *testing.M) {
	drive.Open()
	rc := m.Run()
	server.VerifSetModes(false, false)
	drive.Close()
	stats.Flush()
	os.Exit(rc)
}

// ------------------------------------------------------------------ observation of one version

type readReq struct {
	Method string
	Tail   string // "<instance>/<endpoint...>"
	Body   []byte
	Norm   string // "blockstream": the answer is a stream of (x,y,z int32, n int32, n bytes) records sent in no fixed order; sorted before comparison
}

// sortBlockStream orders the records of a labelmap/labelarray GET blocks answer by (z,y,x).  When the stream
// ends in something that is not a record (the text of an error met after the first blocks were sent, e.g. at
// a merge node whose parents conflict), the complete records before it are ordered all the same and the
// remainder is kept verbatim behind them: which blocks were sent and what followed is still compared.
func sortBlockStream(b []byte) []byte {
	type rec struct {
		c   [3]int32
		raw []byte
	}
	var recs []rec
	var rest []byte
	for p := 0; p < len(b); {
		if p+16 > len(b) {
			rest = b[p:]
			break
		}
		var c [3]int32
		for i := 0; i < 3; i++ {
			c[i] = int32(binary.LittleEndian.Uint32(b[p+4*i:]))
		}
		n := int(int32(binary.LittleEndian.Uint32(b[p+12:])))
		if n < 0 || p+16+n > len(b) {
			rest = b[p:]
			break
		}
		recs = append(recs, rec{c, b[p : p+16+n]})
		p += 16 + n
	}
	sort.SliceStable(recs, func(i, j int) bool {
		a, b := recs[i].c, recs[j].c
		if a[2] != b[2] {
			return a[2] < b[2]
		}
		if a[1] != b[1] {
			return a[1] < b[1]
		}
		return a[0] < b[0]
	})
	out := make([]byte, 0, len(b))
	for _, r := range recs {
		out = append(out, r.raw...)
	}
	return append(out, rest...)
}

// sortRLEs orders the 16-byte runs that follow the 12-byte header of a legacy sparse-volume answer.
func sortRLEs(b []byte) []byte {
	if len(b) < 12 || (len(b)-12)%16 != 0 {
		return b
	}
	n := (len(b) - 12) / 16
	runs := make([][]byte, n)
	for i := range runs {
		runs[i] = b[12+16*i : 28+16*i]
	}
	key := func(r []byte) [3]int32 {
		return [3]int32{int32(binary.LittleEndian.Uint32(r[8:])), int32(binary.LittleEndian.Uint32(r[4:])), int32(binary.LittleEndian.Uint32(r[0:]))}
	}
	sort.SliceStable(runs, func(i, j int) bool {
		a, b := key(runs[i]), key(runs[j])
		for k := 0; k < 3; k++ {
			if a[k] != b[k] {
				return a[k] < b[k]
			}
		}
		return false
	})
	out := append([]byte(nil), b[:12]...)
	for _, r := range runs {
		out = append(out, r...)
	}
	return out
}

// canonJSON re-encodes a JSON document with every array sorted by the encoding of its elements (for answers
// whose element order is not part of the contract); non-JSON input is returned unchanged.
func canonJSON(b []byte) []byte {
	var v interface{}
	if json.Unmarshal(b, &v) != nil {
		return b
	}
	var canon func(v interface{}) interface{}
	canon = func(v interface{}) interface{} {
		switch x := v.(type) {
		case []interface{}:
			type el struct {
				enc string
				v   interface{}
			}
			els := make([]el, len(x))
			for i, e := range x {
				c := canon(e)
				eb, _ := json.Marshal(c)
				els[i] = el{string(eb), c}
			}
			sort.SliceStable(els, func(i, j int) bool { return els[i].enc < els[j].enc })
			out := make([]interface{}, len(x))
			for i, e := range els {
				out[i] = e.v
			}
			return out
		case map[string]interface{}:
			for k, e := range x {
				x[k] = canon(e)
			}
		}
		return v
	}
	out, err := json.Marshal(canon(v))
	if err != nil {
		return b
	}
	return out
}

func (r readReq) key() string { return r.Method + " " + r.Tail }

type nodeMeta struct {
	Note   string
	Log    []string
	Locked bool
}

// obs is what the property calls the state of a version.
type obs struct {
	Raw   map[string]string // hex(full key) -> sha256(value), data keys of versioned instances whose version id is the node's
	Meta  nodeMeta
	Reads map[string]string // read request -> "<code> <sha256(body)>"
	Text  map[string]string // read request -> first bytes of the body (for messages)
	Body  map[string][]byte // read request -> body
}

func sha(b []byte) string {
	h := sha256.Sum256(b)
	return hex.EncodeToString(h[:8])
}

// nodeMetaOf reads note, log and commit state of a node through the node-level GET routes.  (The repo info
// JSON is deliberately not used on the hot path: it marshals every data instance, and the label types read
// their MaxLabel map there without the lock their background max-label updates hold — see findings.go, N3.)
func nodeMetaOf(uuid string) (nodeMeta, error) {
	var m nodeMeta
	var note struct{ Note string }
	var lg struct{ Log []string }
	var st struct{ Locked bool }
	for _, x := range []struct {
		ep string
		v  interface{}
	}{{"note", &note}, {"log", &lg}, {"commit", &st}} {
		r := drive.Get("node/" + uuid + "/" + x.ep)
		if !r.OK() {
			return m, fmt.Errorf("harness: GET node/%s/%s: %s", uuid, x.ep, r)
		}
		if err := json.Unmarshal(r.Body, x.v); err != nil {
			return m, fmt.Errorf("harness: GET node/%s/%s: %v in %s", uuid, x.ep, err, r)
		}
	}
	m.Note, m.Log, m.Locked = note.Note, lg.Log, st.Locked
	return m, nil
}

func instanceExists(root, name string) bool {
	_, err := datastore.GetDataByUUIDName(dvid.UUID(root), dvid.InstanceName(name))
	return err == nil
}

// ---- settling on a tracked instance list (same policy as drive.Settle / DeepSettle / WithDeepRetry, which
// list the instances through the repo info JSON on every call)

var tracked struct {
	root  dvid.UUID
	names []dvid.InstanceName
}

// trackRepo starts tracking the instances the repo has now (call before the first write of a case).
func trackRepo(root string) {
	tracked.root = dvid.UUID(root)
	tracked.names = drive.InstanceNames(root)
}

func trackInstance(name string) { tracked.names = append(tracked.names, dvid.InstanceName(name)) }

func untrackInstance(name string) {
	for i, n := range tracked.names {
		if string(n) == name {
			tracked.names = append(tracked.names[:i], tracked.names[i+1:]...)
			return
		}
	}
}

func trackedNames() []string {
	out := make([]string, len(tracked.names))
	for i, n := range tracked.names {
		out[i] = string(n)
	}
	sort.Strings(out)
	return out
}

func quietNow() bool {
	for _, n := range tracked.names {
		d, err := datastore.GetDataByUUIDName(tracked.root, n)
		if err != nil {
			continue
		}
		if s, ok := d.(datastore.Syncer); ok && s.SyncPending() {
			return false
		}
		if u, ok := d.(interface{ Updating() bool }); ok && u.Updating() {
			return false
		}
	}
	return true
}

// settle: every tracked instance idle on 3 consecutive polls 0.5 ms apart (bounded by count).
func settle() { settlePolls(3, 500*time.Microsecond) }

// settleFirm: 12 consecutive quiet polls 1 ms apart.  Used where a premature "idle" would be baked into a
// reference (the snapshot taken at commit time, the twin's reference observation): the event loops dequeue a
// message before they call StartUpdate, so for an instant nothing looks pending (DESIGN 2.2).
func settleFirm() { settlePolls(12, time.Millisecond) }

func settlePolls(need int, gap time.Duration) {
	ok := 0
	for i := 0; ok < need && i < 120000; i++ {
		if quietNow() {
			ok++
		} else {
			ok = 0
		}
		time.Sleep(gap)
	}
}

// settledOK issues a fixture request whose success depends on background processing of an earlier one
// (e.g. a merge needs the label indices of the ingest); a refusal is retried once after a deep settle.
func settledOK(f func() drive.Resp) drive.Resp {
	r := f()
	if !r.OK() {
		deepSettle()
		r = f()
	}
	return r
}

// deepSettle: BlockOnUpdating for every instance, then 250 ms of continuous quiet.
func deepSettle() {
	for _, n := range tracked.names {
		_ = datastore.BlockOnUpdating(tracked.root, n)
	}
	quietPolls := 0
	for i := 0; quietPolls < 125 && i < 60000; i++ {
		if quietNow() {
			quietPolls++
		} else {
			quietPolls = 0
		}
		time.Sleep(2 * time.Millisecond)
	}
}

// withDeepRetry evaluates an oracle; a mismatch is only believed if it survives a deep settle.
func withDeepRetry(oracle func() error) error {
	settle()
	err := oracle()
	if err == nil {
		return nil
	}
	deepSettle()
	return oracle()
}

func rawScan(db storage.OrderedKeyValueDB, min, max storage.Key, keep func(k storage.Key) bool, out map[string]string) error {
	ch := make(chan *storage.KeyValue, 64)
	done := make(chan struct{})
	go func() {
		defer close(done)
		for kv := range ch {
			if kv == nil {
				return
			}
			if keep(kv.K) {
				out[hex.EncodeToString(kv.K)] = sha(kv.V)
			}
		}
	}()
	err := db.RawRangeQuery(min, max, false, ch, make(chan struct{}))
	if err != nil {
		ch <- nil
	}
	<-done
	return err
}

// rawDump collects the data keys of every versioned instance of the repo whose version id is v.
func rawDump(root string, names []string, v dvid.VersionID) (map[string]string, error) {
	out := map[string]string{}
	for _, n := range names {
		d, err := datastore.GetDataByUUIDName(dvid.UUID(root), dvid.InstanceName(n))
		if err != nil {
			continue // deleted meanwhile
		}
		if !d.Versioned() {
			continue
		}
		db, err := datastore.GetOrderedKeyValueDB(d)
		if err != nil {
			return nil, err
		}
		min, max := storage.DataInstanceKeyRange(d.InstanceID())
		keep := func(k storage.Key) bool {
			if !k.IsDataKey() {
				return false
			}
			kv, err := storage.VersionFromDataKey(k)
			return err == nil && kv == v
		}
		if err := rawScan(db, min, max, keep, out); err != nil {
			return nil, err
		}
	}
	return out, nil
}

func doReads(uuid string, reads []readReq) (map[string]string, map[string]string, map[string][]byte, error) {
	res, text, full := map[string]string{}, map[string]string{}, map[string][]byte{}
	for _, rr := range reads {
		r := drive.Do(rr.Method, "node/"+uuid+"/"+rr.Tail, rr.Body)
		if r.IsPanic() {
			return nil, nil, nil, stats.Violf("C02/read/"+endpointOf(rr.Tail)+"/panic", "%s %s: %s", rr.Method, rr.Tail, r)
		}
		if rr.Norm == "blockstream" && r.OK() {
			r.Body = sortBlockStream(r.Body)
		}
		if rr.Norm == "labelindex" && r.OK() {
			// a protobuf LabelIndex: map fields are serialised in no fixed order
			var li proto.LabelIndex
			if pb.Unmarshal(r.Body, &li) == nil {
				if b, err := (pb.MarshalOptions{Deterministic: true}).Marshal(&li); err == nil {
					r.Body = b
				}
			}
		}
		if rr.Norm == "rles" && r.OK() {
			r.Body = sortRLEs(r.Body)
		}
		if rr.Norm == "tar" && r.OK() {
			// a tar stream assembled by concurrent workers: compare the set of (name, content)
			tr := tar.NewReader(bytes.NewReader(r.Body))
			var ents []string
			for {
				h, err := tr.Next()
				if err != nil {
					break
				}
				data, _ := io.ReadAll(tr)
				ents = append(ents, fmt.Sprintf("%s=%q", h.Name, data))
			}
			sort.Strings(ents)
			r.Body = []byte(strings.Join(ents, "\n"))
		}
		if rr.Norm == "lines" && r.OK() {
			// one record per line, produced by ranging over a Go map
			ls := strings.Split(string(r.Body), "\n")
			sort.Strings(ls)
			r.Body = []byte(strings.Join(ls, "\n"))
		}
		if rr.Norm == "jsonobj" && r.OK() {
			// a JSON object streamed member by member: member order is not content
			var v map[string]json.RawMessage
			if json.Unmarshal(r.Body, &v) == nil {
				if b, err := json.Marshal(v); err == nil {
					r.Body = b
				}
			}
		}
		if rr.Norm == "jsontop" && r.OK() {
			// only the order of the top-level array is outside the contract
			var els []json.RawMessage
			if json.Unmarshal(r.Body, &els) == nil {
				strs := make([]string, len(els))
				for i, e := range els {
					strs[i] = string(e)
				}
				sort.Strings(strs)
				r.Body = []byte("[" + strings.Join(strs, ",") + "]")
			}
		}
		if rr.Norm == "jsonset" && r.OK() {
			r.Body = canonJSON(r.Body)
		}
		full[rr.key()] = r.Body
		res[rr.key()] = fmt.Sprintf("%d %s", r.Code, sha(r.Body))
		b := r.Body
		if len(b) > 160 {
			b = b[:160]
		}
		text[rr.key()] = fmt.Sprintf("%d %q", r.Code, b)
	}
	return res, text, full, nil
}

func endpointOf(tail string) string {
	p := strings.SplitN(tail, "/", 3)
	if len(p) < 2 {
		return tail
	}
	e := p[1]
	if i := strings.IndexByte(e, '?'); i >= 0 {
		e = e[:i]
	}
	return e
}

// observe reads the state of node uuid of the repo.
func observe(root, uuid string, reads []readReq) (*obs, error) {
	return observeOnly(root, uuid, reads, nil)
}

// observeOnly restricts the raw dump to the named instances (nil = every instance of the repo).
func observeOnly(root, uuid string, reads []readReq, only []string) (*obs, error) {
	names := only
	if names == nil {
		names = trackedNames()
	}
	meta, err := nodeMetaOf(uuid)
	if err != nil {
		return nil, err
	}
	v, err := datastore.VersionFromUUID(dvid.UUID(uuid))
	if err != nil {
		return nil, err
	}
	o := &obs{Meta: meta}
	if o.Raw, err = rawDump(root, names, v); err != nil {
		return nil, err
	}
	if o.Reads, o.Text, o.Body, err = doReads(uuid, reads); err != nil {
		return nil, err
	}
	return o, nil
}

// diffObs returns "" when the two observations agree, else the kind of difference ("raw", "meta",
// "read/<endpoint>") and a description.
func diffObs(a, b *obs) (kind, msg string) {
	var keys []string
	for k := range a.Raw {
		keys = append(keys, k)
	}
	for k := range b.Raw {
		if _, ok := a.Raw[k]; !ok {
			keys = append(keys, k)
		}
	}
	sort.Strings(keys)
	for _, k := range keys {
		va, ina := a.Raw[k]
		vb, inb := b.Raw[k]
		switch {
		case !ina:
			return "raw", fmt.Sprintf("stored key %s appeared", k)
		case !inb:
			return "raw", fmt.Sprintf("stored key %s disappeared", k)
		case va != vb:
			return "raw", fmt.Sprintf("stored value of key %s changed", k)
		}
	}
	if a.Meta.Note != b.Meta.Note {
		return "meta/note", fmt.Sprintf("note %q -> %q", a.Meta.Note, b.Meta.Note)
	}
	if strings.Join(a.Meta.Log, "\x00") != strings.Join(b.Meta.Log, "\x00") {
		return "meta/log", fmt.Sprintf("log %q -> %q", a.Meta.Log, b.Meta.Log)
	}
	if a.Meta.Locked != b.Meta.Locked {
		return "meta/locked", fmt.Sprintf("locked %v -> %v", a.Meta.Locked, b.Meta.Locked)
	}
	keys = keys[:0]
	for k := range a.Reads {
		keys = append(keys, k)
	}
	sort.Strings(keys)
	for _, k := range keys {
		if a.Reads[k] != b.Reads[k] {
			return "read/" + endpointOf(strings.SplitN(k, " ", 2)[1]), fmt.Sprintf("%s answered %s, now %s", k, a.Text[k], b.Text[k])
		}
	}
	return "", ""
}

// ------------------------------------------------------------------ server modes

// withModes runs f with the given read-only / full-write switches and always restores the default mode.
func withModes(ro, fw bool, f func()) {
	defer server.VerifSetModes(false, false)
	server.VerifSetModes(ro, fw)
	f()
}
