// Package cworld is the multi-datatype workload shared by the child-process properties (copied from props/c03, which
// keeps its own private copy): a repo with keyvalue, labelmap, annotation (+labelsz), neuronjson and roi instances and
// a list of operations on it.
package cworld

import (
	"encoding/binary"
	"encoding/json"
	"fmt"
	"sort"
	"strings"

	"verif/drive"
)

type Op struct {
	Kind string `json:"kind"`
	Node int    `json:"node"`
	A    int    `json:"a,omitempty"`
	B    int    `json:"b,omitempty"`
	C    int    `json:"c,omitempty"`
}

const Blk = 16

var Ext = [3]int32{2 * Blk, 2 * Blk, 2 * Blk}

// World is a server (child process) holding one repo with one instance of each datatype; Apply interprets an Op against
// the state at execution time (all decisions derive from server answers, so a replay on a fresh server is deterministic).
type World struct {
	C       *drive.Child
	Dir     string
	Root    string
	Nodes   []string
	Locked  map[string]bool
	Nbr     int
	Rebuilt int // ops whose effect lives in state rebuilt at start-up
	Panics  []string
	Last    drive.Resp // answer to the most recent request
	Codes   []int      // status of every request issued by Apply since the caller last reset it
	Extra   []string   // roots of the extra repos made by "newrepo"
}

func (w *World) Do(method, url string, body []byte) (drive.Resp, error) {
	r, err := w.C.Do(method, url, body)
	if err != nil {
		return r, err
	}
	w.Last = r
	w.Codes = append(w.Codes, r.Code)
	if r.IsPanic() {
		w.Panics = append(w.Panics, method+" "+url+" -> "+string(r.Body))
	}
	return r, nil
}

func (w *World) Post(url string, body []byte) (drive.Resp, error) { return w.Do("POST", url, body) }

func U64s(v []uint64) []byte {
	s := make([]string, len(v))
	for i, x := range v {
		s[i] = fmt.Sprint(x)
	}
	return []byte("[" + strings.Join(s, ",") + "]")
}

// bodies at a node: (label, size) from listlabels
func (w *World) Bodies(uuid string) ([]uint64, error) {
	r, err := w.Do("GET", "node/"+uuid+"/lm/listlabels", nil)
	if err != nil {
		return nil, err
	}
	var out []uint64
	for i := 0; i+8 <= len(r.Body); i += 8 {
		out = append(out, binary.LittleEndian.Uint64(r.Body[i:]))
	}
	return out, nil
}

func (w *World) Supervoxels(uuid string, body uint64) ([]uint64, error) {
	r, err := w.Do("GET", fmt.Sprintf("node/%s/lm/supervoxels/%d", uuid, body), nil)
	if err != nil {
		return nil, err
	}
	var out []uint64
	json.Unmarshal(r.Body, &out)
	sort.Slice(out, func(i, j int) bool { return out[i] < out[j] })
	return out, nil
}

// volume with labels laid out in 8^3 cells: label = 1 + (cell index + shift) % nlabels
func Volume(shift, nlabels int, size [3]int32) []byte {
	b := make([]byte, int(size[0])*int(size[1])*int(size[2])*8)
	i := 0
	for z := int32(0); z < size[2]; z++ {
		for y := int32(0); y < size[1]; y++ {
			for x := int32(0); x < size[0]; x++ {
				cell := int(x/8) + 4*int(y/8) + 16*int(z/8)
				l := uint64(1 + (cell+shift)%nlabels)
				if (x+y+z)%11 == 0 {
					l = 0
				}
				binary.LittleEndian.PutUint64(b[i:], l)
				i += 8
			}
		}
	}
	return b
}

func (w *World) Setup() error {
	r, err := w.Post("repos", []byte(`{"alias":"c03","description":"restart"}`))
	if err != nil {
		return err
	}
	var rr struct{ Root string }
	if json.Unmarshal(r.Body, &rr) != nil || rr.Root == "" {
		return fmt.Errorf("new repo: %s", r)
	}
	w.Root = rr.Root
	w.Nodes = []string{rr.Root}
	w.Locked = map[string]bool{}
	mk := func(typ, name string, extra map[string]string) error {
		m := map[string]string{"typename": typ, "dataname": name}
		for k, v := range extra {
			m[k] = v
		}
		b, _ := json.Marshal(m)
		r, err := w.Post("repo/"+w.Root+"/instance", b)
		if err != nil {
			return err
		}
		if !r.OK() {
			return fmt.Errorf("new instance %s: %s", name, r)
		}
		return nil
	}
	bs := fmt.Sprintf("%d,%d,%d", Blk, Blk, Blk)
	if err := mk("keyvalue", "kv", nil); err != nil {
		return err
	}
	if err := mk("labelmap", "lm", map[string]string{"BlockSize": bs}); err != nil {
		return err
	}
	if err := mk("annotation", "ann", map[string]string{"BlockSize": bs}); err != nil {
		return err
	}
	if err := mk("labelsz", "sz", nil); err != nil {
		return err
	}
	if err := mk("neuronjson", "nj", nil); err != nil {
		return err
	}
	if err := mk("roi", "roi", map[string]string{"BlockSize": bs}); err != nil {
		return err
	}
	if r, err := w.Post("node/"+w.Root+"/ann/sync", []byte(`{"sync":"lm"}`)); err != nil || !r.OK() {
		return fmt.Errorf("sync ann: %v %s", err, r)
	}
	if r, err := w.Post("node/"+w.Root+"/sz/sync", []byte(`{"sync":"ann"}`)); err != nil || !r.OK() {
		return fmt.Errorf("sync sz: %v %s", err, r)
	}
	return nil
}

func (w *World) OpenNode(i int) (string, bool) {
	if i < 0 {
		i = len(w.Nodes) - 1
	}
	u := w.Nodes[i%len(w.Nodes)]
	return u, !w.Locked[u]
}

func (w *World) Apply(o Op) error {
	u, open := w.OpenNode(o.Node)
	if o.Node < 0 {
		u = w.Nodes[len(w.Nodes)-1]
		open = !w.Locked[u]
	}
	var err error
	switch o.Kind {
	case "kvput":
		_, err = w.Post(fmt.Sprintf("node/%s/kv/key/k%d", u, o.A%6), []byte(fmt.Sprintf("value-%d-%d", o.A, o.B)))
	case "kvbatch":
		// POST keyvalues: protobuf KeyValues{repeated KeyValue{string key=1; bytes value=2} kvs=1}
		var pb []byte
		for i := 0; i < 2+o.C%3; i++ {
			k := fmt.Sprintf("k%d", (o.A+i)%6)
			v := fmt.Sprintf("batch-%d-%d-%d", o.A, o.B, i)
			kv := append([]byte{0x0a, byte(len(k))}, k...)
			kv = append(kv, 0x12, byte(len(v)))
			kv = append(kv, v...)
			pb = append(pb, 0x0a, byte(len(kv)))
			pb = append(pb, kv...)
		}
		_, err = w.Post("node/"+u+"/kv/keyvalues", pb)
	case "newrepo":
		var r drive.Resp
		r, err = w.Post("repos", []byte(fmt.Sprintf(`{"alias":"extra%d","description":"second repo"}`, o.A%3)))
		if err == nil && r.OK() {
			var rr struct{ Root string }
			if json.Unmarshal(r.Body, &rr) == nil && rr.Root != "" {
				w.Extra = append(w.Extra, rr.Root)
			}
		}
	case "delrepo":
		// the documented way to delete a repo: RPC command "repos delete <uuid> <passcode>"
		if len(w.Extra) == 0 {
			return nil
		}
		root := w.Extra[len(w.Extra)-1]
		if _, e := w.C.RPC("repos", "delete", root, ""); e != nil {
			if e == drive.ErrChildDied {
				return e
			}
			return nil
		}
		w.Extra = w.Extra[:len(w.Extra)-1]
	case "kvdel":
		_, err = w.Do("DELETE", fmt.Sprintf("node/%s/kv/key/k%d", u, o.A%6), nil)
	case "commit":
		var r drive.Resp
		r, err = w.Post("node/"+u+"/commit", []byte(fmt.Sprintf(`{"note":"commit %d","log":["l%d"]}`, o.A, o.B)))
		if err == nil && r.OK() {
			w.Locked[u] = true
		}
	case "note":
		_, err = w.Post("node/"+u+"/note", []byte(fmt.Sprintf(`{"note":"note %d"}`, o.A)))
	case "log":
		_, err = w.Post("node/"+u+"/log", []byte(fmt.Sprintf(`{"log":["entry %d"]}`, o.A)))
	case "newversion", "branch":
		if open {
			r, e := w.Post("node/"+u+"/commit", []byte(`{"note":"auto"}`))
			if e != nil {
				return e
			}
			if r.OK() {
				w.Locked[u] = true
			}
		}
		var r drive.Resp
		if o.Kind == "newversion" {
			r, err = w.Post("node/"+u+"/newversion", []byte(`{"note":"nv"}`))
		} else {
			w.Nbr++
			r, err = w.Post("node/"+u+"/branch", []byte(fmt.Sprintf(`{"branch":"b%d","note":"br"}`, w.Nbr)))
		}
		if err == nil && r.OK() {
			var c struct{ Child string }
			if json.Unmarshal(r.Body, &c) == nil && c.Child != "" {
				w.Nodes = append(w.Nodes, c.Child)
			}
		}
	case "dagmerge":
		var committed []string
		for _, n := range w.Nodes {
			if w.Locked[n] {
				committed = append(committed, n)
			}
		}
		if len(committed) < 2 {
			return nil
		}
		p1, p2 := committed[o.A%len(committed)], committed[o.B%len(committed)]
		if p1 == p2 {
			return nil
		}
		b, _ := json.Marshal(map[string]interface{}{"mergeType": "conflict-free", "parents": []string{p1, p2}, "note": "m"})
		var r drive.Resp
		r, err = w.Post("repo/"+w.Root+"/merge", b)
		if err == nil && r.OK() {
			var c struct{ Child string }
			if json.Unmarshal(r.Body, &c) == nil && c.Child != "" {
				w.Nodes = append(w.Nodes, c.Child)
			}
		}
	case "lmingest":
		mut := ""
		if o.B%2 == 1 {
			mut = "?mutate=true"
		}
		_, err = w.Post(fmt.Sprintf("node/%s/lm/raw/0_1_2/%d_%d_%d/0_0_0%s", u, Ext[0], Ext[1], Ext[2], mut), Volume(o.A, 3+o.C%6, Ext))
		w.Rebuilt++
	case "lmmerge":
		bs, e := w.Bodies(u)
		if e != nil {
			return e
		}
		if len(bs) < 2 {
			return nil
		}
		t, m := bs[o.A%len(bs)], bs[o.B%len(bs)]
		if t == m {
			return nil
		}
		_, err = w.Post("node/"+u+"/lm/merge", U64s([]uint64{t, m}))
		w.Rebuilt++
	case "lmcleave":
		bs, e := w.Bodies(u)
		if e != nil {
			return e
		}
		if len(bs) == 0 {
			return nil
		}
		b := bs[o.A%len(bs)]
		svs, e := w.Supervoxels(u, b)
		if e != nil {
			return e
		}
		if len(svs) < 2 {
			return nil
		}
		_, err = w.Post(fmt.Sprintf("node/%s/lm/cleave/%d", u, b), U64s([]uint64{svs[o.B%len(svs)]}))
		w.Rebuilt++
	case "lmundo":
		// an edit in one version undone in a descendant version: (merge so a body has two supervoxels,) cleave a
		// supervoxel off, commit, new version, merge the cleaved body back
		if !open {
			return nil
		}
		bs, e := w.Bodies(u)
		if e != nil {
			return e
		}
		if len(bs) == 0 {
			return nil
		}
		b := bs[o.A%len(bs)]
		svs, e := w.Supervoxels(u, b)
		if e != nil {
			return e
		}
		if len(svs) < 2 && len(bs) >= 2 {
			m := bs[(o.A+1+o.B%(len(bs)-1))%len(bs)]
			if m == b {
				return nil
			}
			if _, e = w.Post("node/"+u+"/lm/merge", U64s([]uint64{b, m})); e != nil {
				return e
			}
			if e = w.C.Settle(false); e != nil {
				return e
			}
			if svs, e = w.Supervoxels(u, b); e != nil {
				return e
			}
		}
		if len(svs) < 2 {
			return nil
		}
		sv := svs[o.C%len(svs)]
		if o.C%3 != 0 {
			for _, s := range svs {
				if s == b {
					sv = s
				}
			}
		}
		r, e := w.Post(fmt.Sprintf("node/%s/lm/cleave/%d", u, b), U64s([]uint64{sv}))
		if e != nil {
			return e
		}
		var cl struct{ CleavedLabel uint64 }
		if !r.OK() || json.Unmarshal(r.Body, &cl) != nil || cl.CleavedLabel == 0 {
			return nil
		}
		w.Rebuilt++
		if e = w.C.Settle(false); e != nil {
			return e
		}
		if e = w.Apply(Op{Kind: "newversion", Node: o.Node}); e != nil {
			return e
		}
		child := w.Nodes[len(w.Nodes)-1]
		if child == u || w.Locked[child] {
			return nil
		}
		_, err = w.Post("node/"+child+"/lm/merge", U64s([]uint64{b, cl.CleavedLabel}))
	case "lmrenumber":
		bs, e := w.Bodies(u)
		if e != nil {
			return e
		}
		if len(bs) == 0 {
			return nil
		}
		r, e := w.Post("node/"+u+"/lm/nextlabel/1", nil)
		if e != nil {
			return e
		}
		var nl struct{ Start uint64 }
		if !r.OK() || json.Unmarshal(r.Body, &nl) != nil {
			return nil
		}
		_, err = w.Post("node/"+u+"/lm/renumber", U64s([]uint64{nl.Start, bs[o.A%len(bs)]}))
		w.Rebuilt++
	case "lmsplitsv":
		bs, e := w.Bodies(u)
		if e != nil {
			return e
		}
		if len(bs) == 0 {
			return nil
		}
		svs, e := w.Supervoxels(u, bs[o.A%len(bs)])
		if e != nil || len(svs) == 0 {
			return e
		}
		sv := svs[o.B%len(svs)]
		// split off the supervoxel's voxels with x < 8+o.C%16: fetch its sparse volume and keep a prefix of the runs
		r, e := w.Do("GET", fmt.Sprintf("node/%s/lm/sparsevol/%d?format=srles&supervoxels=true", u, sv), nil)
		if e != nil {
			return e
		}
		if !r.OK() || len(r.Body) < 32 {
			return nil
		}
		nruns := len(r.Body) / 16
		keep := 1 + o.C%(nruns-1+1)
		if keep >= nruns {
			keep = nruns - 1
		}
		if keep < 1 {
			return nil
		}
		body := make([]byte, 12, 12+16*keep)
		body[1] = 3
		binary.LittleEndian.PutUint32(body[8:], uint32(keep))
		body = append(body, r.Body[:16*keep]...)
		_, err = w.Post(fmt.Sprintf("node/%s/lm/split-supervoxel/%d", u, sv), body)
		w.Rebuilt++
	case "annpost":
		x, y, z := (o.A*7)%int(Ext[0]), (o.B*5)%int(Ext[1]), (o.C*3)%int(Ext[2])
		x2, y2, z2 := (x+9)%int(Ext[0]), (y+17)%int(Ext[1]), z
		kind := []string{"PostSyn", "PreSyn", "Note"}[o.A%3]
		el := fmt.Sprintf(`[{"Pos":[%d,%d,%d],"Kind":%q,"Tags":["t%d"],"Prop":{"n":"%d"},"Rels":[{"Rel":"PostSynTo","To":[%d,%d,%d]}]},{"Pos":[%d,%d,%d],"Kind":"PreSyn","Tags":["t%d","u"],"Prop":{},"Rels":[{"Rel":"PreSynTo","To":[%d,%d,%d]}]}]`,
			x, y, z, kind, o.B%3, o.C, x2, y2, z2, x2, y2, z2, o.C%3, x, y, z)
		_, err = w.Post("node/"+u+"/ann/elements", []byte(el))
		w.Rebuilt++
	case "anndel":
		x, y, z := (o.A*7)%int(Ext[0]), (o.B*5)%int(Ext[1]), (o.C*3)%int(Ext[2])
		_, err = w.Do("DELETE", fmt.Sprintf("node/%s/ann/element/%d_%d_%d", u, x, y, z), nil)
	case "annmove":
		x, y, z := (o.A*7)%int(Ext[0]), (o.B*5)%int(Ext[1]), (o.C*3)%int(Ext[2])
		_, err = w.Post(fmt.Sprintf("node/%s/ann/move/%d_%d_%d/%d_%d_%d", u, x, y, z, (x+13)%int(Ext[0]), (y+3)%int(Ext[1]), (z+20)%int(Ext[2])), nil)
	case "njpost":
		id := []uint64{5, 30, 200, 1000, 9007199254740993}[o.A%5]
		q := ""
		if o.B%4 == 0 {
			q = "?replace=true"
		}
		doc := fmt.Sprintf(`{"bodyid":%d,"f%d":"v%d","g":%d}`, id, o.B%3, o.C, o.C)
		if o.C%5 == 0 {
			doc = fmt.Sprintf(`{"bodyid":%d,"f%d":null}`, id, o.B%3)
		}
		_, err = w.Post(fmt.Sprintf("node/%s/nj/key/%d%s", u, id, q)+userQ(q, o.A), []byte(doc))
		w.Rebuilt++
	case "njdel":
		id := []uint64{5, 30, 200, 1000, 9007199254740993}[o.A%5]
		_, err = w.Do("DELETE", fmt.Sprintf("node/%s/nj/key/%d", u, id), nil)
		w.Rebuilt++
	case "roipost":
		_, err = w.Post("node/"+u+"/roi/roi", []byte(fmt.Sprintf(`[[%d,%d,%d,%d],[1,1,0,1]]`, o.A%2, o.B%2, o.C%2, o.C%2+1)))
	case "newinst":
		b, _ := json.Marshal(map[string]string{"typename": "keyvalue", "dataname": fmt.Sprintf("kv%d", o.A%3)})
		_, err = w.Post("repo/"+w.Root+"/instance", b)
	case "delinst":
		_, e := w.C.RPC("repo", w.Root, "delete", fmt.Sprintf("kv%d", o.A%3), "")
		_ = e
	}
	return err
}

func userQ(q string, a int) string {
	if q == "" {
		return fmt.Sprintf("?u=user%d", a%2)
	}
	return fmt.Sprintf("&u=user%d", a%2)
}
