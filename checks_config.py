# Per-property configuration of the check driver: which props package, which
# tests, how many generated cases per shard in each tier, required classes.
TAGS = "badger filelog verif"


def T(name, quick, thorough, **kw):
    """quick/thorough: (checks_per_shard, shards) or None"""
    def mk(v):
        if v is None:
            return None
        d = {"checks": v[0], "shards": v[1]}
        if len(v) > 2:
            d.update(v[2])
        return d
    d = {"name": name, "quick": mk(quick), "thorough": mk(thorough)}
    d.update(kw)
    return d


CHECKS = {
    "C15": {
        "pkg": "c15",
        "level": "exploration",
        "tests": [
            T("TestC15RoundTrip", (400, 4), (6000, 16)),
            T("TestC15Gob", (300, 1), (5000, 2)),
            T("TestC15Corruption", (150, 4), (3000, 16)),
            T("TestC15Arbitrary", (3000, 2), (150000, 8)),
        ],
        "fuzz": [{"name": "FuzzC15Deserialize", "time": "120s"}],
        "required_classes": ["rt/format=1", "rt/format=2", "rt/format=4", "rt/size=0", "rt/size=1", "corr/exhaustive=true", "arb/kind=jpeg-color", "arb/format=4"],
        "rule": "rapid-generated (payload kind/size/seed, format in {none,snappy,lz4,gzip -1,1..9} x {none,CRC32}, uncompress flag, precompressed flag); corruption cases = envelope + exhaustive or sampled bit flips / byte changes / truncations; arbitrary cases = header byte x body, valid gray/colour JPEG, LZ4 with lying length. Non-trivial: payload >= 2 bytes with a real compressor, or a corruption case on a non-empty payload, or arbitrary input >= 2 bytes. Distinct = distinct hash of the case value.",
        "assumptions": ["CRC32 detects every single-bit and single-byte change (mathematical property of the polynomial); for truncations a genuine CRC collision is recomputed and accepted",
                        "gzip envelopes carry no DVID checksum by design (documented in SerializeData); for them only 'error or identical payload' with decompression requested is asserted",
                        "JPEG is lossy and only in the no-crash domain"],
    },
    "C18": {
        "pkg": "c18",
        "level": "exploration",
        "tests": [
            T("TestC18Keys", (20000, 1), (1500000, 4)),
            T("TestC18Packed", (10000, 1), (800000, 2)),
            T("TestC18RLEs", (1500, 4), (40000, 16)),
            T("TestC18ROI", (400, 2), (8000, 8)),
        ],
        "fuzz": [{"name": "FuzzC18ReadRLEs", "time": "60s"}],
        "required_classes": ["keys/different-signs", "rle/adjacent-runs", "rle/run-crosses-block-edge", "rle/negative-coords", "roi/negative-spans"],
        "rule": "rapid-generated: pairs of int32 block coordinates (boundary-biased, related by small deltas / sign flips) for the key codecs and order; pairs of |c|<2^20 coordinates for the packed index; sets of non-overlapping runs (shuffled, adjacent, single-voxel, long, negative bases) with a drawn subset, second set, block size, optional bounds and query points for the RLE algebra; ROI span sets + query points + mask box + extents over HTTP. Non-trivial: key pair with different signs on some axis / packed coordinate with a negative component / run set with >=1 adjacency and >=1 run crossing a block edge / ROI with >=2 spans and >=1 query point. Distinct = hash of the case value.",
        "assumptions": ["runs are non-overlapping (the property's domain); coordinates stay within +-2^30 so that start+length cannot overflow int32",
                        "RLEs.Add is only checked as a set union (its voxelsAdded count is not part of the statement)",
                        "Split is only asserted for true subsets (documented precondition)"],
    },
}
