# Per-property configuration of the check driver: which props package, which
# tests, how many generated cases per shard in each tier, required classes.
TAGS = "badger filelog verif"


def T(name, quick, thorough, **kw):
    """quick/thorough: (checks_per_shard, shards) or None"""
    def mk(v):
        if v is None:
            return None
        d = {"checks": v[0], "shards": v[1]}
        if len(v) > 2:
            d.update(v[2])
        return d
    d = {"name": name, "quick": mk(quick), "thorough": mk(thorough)}
    d.update(kw)
    return d


CHECKS = {
    "C15": {
        "pkg": "c15",
        "level": "exploration",
        "tests": [
            T("TestC15RoundTrip", (400, 4), (6000, 16)),
            T("TestC15Gob", (300, 1), (5000, 2)),
            T("TestC15Corruption", (150, 4), (3000, 16)),
            T("TestC15Arbitrary", (3000, 2), (150000, 8)),
        ],
        "fuzz": [{"name": "FuzzC15Deserialize", "time": "120s"}],
        "required_classes": ["rt/format=1", "rt/format=2", "rt/format=4", "rt/size=0", "rt/size=1", "corr/exhaustive=true", "arb/kind=jpeg-color", "arb/format=4"],
        "rule": "rapid-generated (payload kind/size/seed, format in {none,snappy,lz4,gzip -1,1..9} x {none,CRC32}, uncompress flag, precompressed flag); corruption cases = envelope + exhaustive or sampled bit flips / byte changes / truncations; arbitrary cases = header byte x body, valid gray/colour JPEG, LZ4 with lying length. Non-trivial: payload >= 2 bytes with a real compressor, or a corruption case on a non-empty payload, or arbitrary input >= 2 bytes. Distinct = distinct hash of the case value.",
        "assumptions": ["CRC32 detects every single-bit and single-byte change (mathematical property of the polynomial); for truncations a genuine CRC collision is recomputed and accepted",
                        "gzip envelopes carry no DVID checksum by design (documented in SerializeData); for them only 'error or identical payload' with decompression requested is asserted",
                        "JPEG is lossy and only in the no-crash domain"],
    },
    "C18": {
        "pkg": "c18",
        "level": "exploration",
        "tests": [
            T("TestC18Keys", (20000, 1), (1500000, 4)),
            T("TestC18Packed", (10000, 1), (800000, 2)),
            T("TestC18RLEs", (1500, 4), (40000, 16)),
            T("TestC18ROI", (400, 2), (8000, 8)),
        ],
        "fuzz": [{"name": "FuzzC18ReadRLEs", "time": "60s"}],
        "required_classes": ["keys/different-signs", "rle/adjacent-runs", "rle/run-crosses-block-edge", "rle/negative-coords", "roi/negative-spans"],
        "rule": "rapid-generated: pairs of int32 block coordinates (boundary-biased, related by small deltas / sign flips) for the key codecs and order; pairs of |c|<2^20 coordinates for the packed index; sets of non-overlapping runs (shuffled, adjacent, single-voxel, long, negative bases) with a drawn subset, second set, block size, optional bounds and query points for the RLE algebra; ROI span sets + query points + mask box + extents over HTTP. Non-trivial: key pair with different signs on some axis / packed coordinate with a negative component / run set with >=1 adjacency and >=1 run crossing a block edge / ROI with >=2 spans and >=1 query point. Distinct = hash of the case value.",
        "assumptions": ["runs are non-overlapping (the property's domain); coordinates stay within +-2^30 so that start+length cannot overflow int32",
                        "RLEs.Add is only checked as a set union (its voxelsAdded count is not part of the statement)",
                        "Split is only asserted for true subsets (documented precondition)"],
    },
    "C01": {
        "pkg": "c01",
        "level": "exploration",
        "tests": [
            T("TestC01Resolver", (80, 4), (100, 48)),  # about 23 MB of resident memory per case stay with the process (every repo it made)
            T("TestC01Store", (300, 4), (1000, 48)),
            T("TestC01HTTP", (100, 4), (700, 48)),
        ],
        "required_classes": ["dag/template", "dag/free", "dag/merge>=3parents", "dag/merge>=3parents+shared-nonroot-ancestor", "dag/merge-parent-is-ancestor-of-another", "dag/nested-merge", "http/has-merge", "store/rewrite-at-same-version", "store/range-delete-after-write"],
        "rule": "rapid-generated version DAGs (free growth: child / 2-4-parent merges over <=10 nodes; lineage templates: trunk + k in 2..4 lineages forking from trunk or other lineages with 0-2 own nodes, merged, optionally a child / second-level merge on top; every order of the last merge's parents enumerated). Resolver layer: for each DAG every placement of {none,value,tombstone} over the nodes (3^n exhaustive for n<=7, 500 sampled above), entry list permuted, GetBestKeyVersion and VersionedKeyValue at every node vs the frontier model (counter resolver_dag_placement_query_evaluations). Store layer: real Put/Delete/batch and DeleteRange over the whole key class (model: a tombstone at that node for every key visible there, other keys untouched; a point delete instead where some key is in conflict at that node) on Badger at arbitrary nodes, Get/Exists at every node after every write. HTTP layer: op lists over put/del/commit/newversion/branch/merge on a versioned and an unversioned keyvalue instance in two repos, reads of the touched key at every node of both repos after every write plus a final sweep. Non-trivial: DAG with >=3 nodes (resolver); key written at >=2 nodes incl. a delete (store); >=2 DAG-growing ops and >=1 delete (HTTP). Distinct = hash of the case value.",
        "assumptions": ["merge parents are distinct committed nodes (what the merge endpoint is documented to take)",
                        "on a conflict (>=2 unsuperseded live values) both an error and 'absent' are accepted, a value is not"],
    },
    "C05": {
        "pkg": "c05",
        "level": "exploration",
        "tests": [
            T("TestC05History", (400, 4), (1250, 64)),  # <= ~1500 cases per process: the datastore of a process keeps every repo it made (about 1.2 MB each)
            T("TestC05BulkDeleteRange", (25, 4), (300, 16)),
        ],
        "required_classes": ["hist/delrange", "hist/merge", "hist/binary-values", "hist/query-lo>hi", "bulk/span-multiple-of-batch"],
        "rule": "rapid-generated histories (put/del over HTTP on open nodes, commit, newversion, branch, merge, storage-level DeleteRange) over a 10-key universe built from prefix-related keys, followed by range queries (node, [lo,hi]) with ends from the universe plus never-stored keys incl. lo>hi: storage GetRange/KeysInRange/SendKeysInRange/ProcessRange and HTTP keys, keyrange, keyrangevalues (protobuf|tar|json), GET keyvalues (protobuf|jsontar|json) all compared with HTTP point reads of every universe key in the interval (and those with the DAG model); after every DeleteRange a full point-read sweep of all (key,node) pairs. Bulk test: N keys at the root, DeleteRange at a child/grandchild over an interval whose size is steered to the store's batch size (1,2,3,17,998..1002,1999..2001,3000), KeysInRange at every node + edge point reads. Non-trivial: a query whose interval holds >=1 present and >=1 absent/tombstoned key on a DAG with a branch (history); span>=2 (bulk). Distinct = hash of the case value.",
        "assumptions": ["keys are alphanumeric (help text); values are JSON for the json variants (documented requirement) and arbitrary non-empty bytes otherwise",
                        "an interval that contains a key with an unresolved merge conflict at the queried version may be refused; DeleteRange over such an interval is not exercised"],
    },
    "C09": {
        "pkg": "c09",
        "level": "exploration",
        "tests": [
            T("TestC09Codec", (900, 4), (6000, 16)),
            T("TestC09Views", (1000, 4), (6000, 16)),
        ],
        "fuzz": [{"name": "FuzzC09Codec", "time": "90s"}],
        "required_classes": ["codec/bits=0", "codec/bits=1", "codec/bits=2", "codec/bits=3", "codec/bits=4", "codec/bits=5", "codec/bits=6", "codec/bits=7", "codec/bits=8", "codec/bits=9",
                             "codec/k>=257", "codec/shape=cubic", "codec/shape=noncubic", "codec/size>=64^3", "codec/solid", "codec/only-label-0", "codec/two-labels",
                             "codec/labels>=2^32", "codec/label=2^64-1", "codec/has-label-0", "codec/subvolume", "codec/subvolume/negative-bcoord",
                             "views/negative-bcoord", "views/MakeSolidBlock", "views/with-prev", "views/aliased-table=replace", "views/aliased-table=merge", "views/adjacent-blocks", "views/multi-label-selection", "views/k>=257"],
        "rule": "rapid-generated label arrays: block size (8gx,8gy,8gz) with g in 2..4 mostly, up to 8 and elongated up to 1024 voxels on one axis occasionally; content built per 8x8x8 sub-block (model.BlockSpec.Build, a pure function of the drawn spec): each sub-block takes k distinct labels, k from a drawn list over {1,2,3,4,5,7,8,9,15,16,17,31,33,63,65,127,129,255,257,511,512} / uniform 1..512 / 1..12, labels are a window of a block-level table made of selected boundary values {0,1,2^32-1,2^32,2^32+1,2^53-1,2^63,2^64-1} followed by base,base+1,.. with base in {1,2,1000,2^32-3,2^63-2,2^64-40,2^64-600}, voxels filled randomly or in runs with every one of the k labels forced to appear; special kinds: one label, label 0 only, two labels split inside one sub-block, some sub-blocks solid. Codec cases add a block-aligned sub-volume of 1..8 blocks at a (possibly negative) block coordinate and convert every block of it. View cases take a row of 1..3 blocks along X (adjacent or with a gap, possibly negative block coordinate, solid ones via MakeSolidBlock), all voxels as query points (sampled for >32^3) plus drawn points, 1..3 selected labels (present / absent) for WriteRLEs and WriteBinaryBlocks->ReceiveBinaryBlocks, an optional previous block for CalcNumLabels, and optionally duplicate / dead label-table entries made with ReplaceLabel / MergeLabels on the first block. Non-trivial: at least one sub-block with >= 3 distinct labels. Distinct = hash of the case value.",
        "assumptions": ["sub-volumes handed to SubvolumeToBlock are block aligned (labelmap.PutLabels rejects anything else)",
                        "GetPointLabels is only asserted for points inside the block: its doc comment promises 0 for outside points, the code returns other labels, but no caller passes such points (see props/c09/FINDINGS.md, observation O1)",
                        "label 0 is never a selected label of a sparse output (it is the background); bounds are not passed to WriteRLEs / WriteBinaryBlocks",
                        "the order of the block-level label table is not part of the format: blocks with duplicate table entries are built on a block whose table was reordered deterministically and re-parsed with UnmarshalBinary"],
    },
    "C10": {
        "pkg": "c10",
        "level": "exploration",
        "tests": [
            T("TestC10Merge", (1000, 2), (3600, 16)),
            T("TestC10Replace", (1000, 2), (3300, 16)),
            T("TestC10Split", (1000, 2), (4200, 16)),
            T("TestC10Downres", (250, 4), (600, 16)),
            T("TestC10Sequences", (1000, 2), (4200, 16)),
        ],
        "required_classes": ["op=merge/target-present", "op=merge/target-absent", "op=merge/merged-present", "op=merge/merged-absent", "op=merge/merged-everything", "op=merge/on-merged-block",
                             "op=replace/source-zero", "op=replace/dest-zero", "op=replace/identity", "op=replace/dest-present", "op=replace/chain-a->b,b->c", "op=replacemap/chain-a->b,b->c", "op=replacemap/source-zero", "op=replacemap/dest-zero",
                             "negative-bcoord", "op=split/runs=empty", "op=split/runs=whole", "op=split/runs=single", "op=split/runs=follow", "op=split/run-crosses-sub-block", "op=split/runs-partly-outside-target", "op=split/target-absent", "op=split/whole-target-split",
                             "op=downres/absent+solid+mixed", "op=downres/receiver=existing", "op=downres/receiver=fresh", "op=downres/receiver=solid0", "op=downres/vote-tie", "op=downres/absent=0", "op=downreslabels/size-not-multiple-of-8",
                             "seq/len=2", "seq/len=4", "seq/merge->replace", "seq/replace->merge", "seq/merge->split"],
        "rule": "rapid-generated blocks as in C09 (label table order optionally fixed by a drawn seed so that table-position-dependent behaviour is reproducible). Merge: 1..3 MergeOps in sequence, target present/absent, merged labels present/absent/mixed/everything, later merges into or out of the earlier target. Replace: 1..3 steps of ReplaceLabel / ReplaceLabels with sources and destinations from {present, absent, 0}, chains a->b then b->c across steps and inside one mapping, swaps, identity. Split: one block at a (possibly negative) block coordinate and a run set in DVID voxel space (empty, whole block, single voxel, explicit runs, random runs, runs following a label's voxels but cut / extended over neighbours) given to Split, SplitSupervoxel (with and without an entry for the block), SplitSupervoxels, SplitStats and DoSplitWithStats (SVSplitMap partly pre-populated). Downres: eight octants each absent / solid / mixed (patterns: independent, only solid-0 and absent, same solid label, all mixed, mostly absent) sharing a label table, receiver fresh / MakeSolidBlock(0) / an existing block; Block.Downres and DownresSlow vs the documented vote (most frequent non-zero label, ties to the smaller, none -> 0) written into the octant's portion, DownresLabels on an even-sized crop, DownresFast vs DownresSlow under its own signatures. Sequences: 2..4 operations of {merge, replace, split, splitsv, splitsvs} applied to one block, model compared after every step, CalcNumLabels(prev) compared with true count deltas. Non-trivial: the operation changes voxels in >= 2 sub-blocks of a block with >= 3 labels. Distinct = hash of the case value.",
        "assumptions": ["merge targets and merged labels are non-zero and the target is not among the merged labels (MergeTuple.Op rejects 0; MergeStart rejects chains)",
                        "split run sets are non-overlapping and lie inside the block (the datatypes partition a sparse volume per block)",
                        "new labels of splits are fresh (>= 2^40) except for a marked class where Split's NewLabel is a label already in the block",
                        "Downres is called with at least one octant present (labelmap only down-samples changed blocks)",
                        "splitFast is unexported and unreachable; it is not compared with splitSlow",
                        "ReplaceLabels' 'replaced' flag is only compared on blocks straight from MakeBlock"],
    },
    "C07": {
        "pkg": "c07",
        "level": "exploration",
        "tests": [
            T("TestC07History", (150, 4), (4000, 16)),
        ],
        "required_classes": ["merge/open-parent", "merge/unknown-parent", "merge/repeated-parent", "merge/foreign-parent", "duplicate-caller-uuid", "tag-equal-to-existing-uuid", "branch-name-reuse", "repo-delete", "malformed-body", "branch-named-like-a-tag", "tag-from-release-pool"],
        "rule": "rapid-generated request histories (<=40) over new repo / commit / newversion / branch / tag / merge / resolve / note / log / instance create / rename / delete / repo delete in up to 3 repos, each operand drawn from kinds (uuid: none|fresh|existing here|existing elsewhere|malformed|empty; address: full|prefix|root:branch|unknown|malformed; branch names fresh|existing|master|empty|odd|tag-<release name>; tags fresh uuid|existing uuid|version string|empty|release name (branch and tag requests share a pool of two release names, so a tag meets a branch named after it and vice versa); merge parents committed|open|unknown|repeated|foreign; bodies valid|missing fields|wrong types|empty|truncated). After every request the whole metadata (repos/info + identifier maps) is snapshotted: invariants checked, a rejected request must leave it identical, an accepted DAG-growing request must add exactly one node with the requested parents. Non-trivial: >=1 rejected request and >=2 accepted DAG-growing requests. Distinct = hash of the op list.",
        "assumptions": ["status codes are not relied on beyond 2xx vs not-2xx", "linearity is asserted for branch names created through the branch endpoint (master can legitimately fork through merges, which are filed under the default branch)"],
    },
    "C08": {
        "pkg": "c08",
        "level": "exploration",
        "tests": [
            T("TestC08Machine", (30, 4), (500, 16)),
        ],
        "required_classes": ["applied/merge", "applied/cleave", "applied/splitsv", "applied/renumber", "applied/mutate", "applied/version"],
        "rule": "rapid-generated model-based histories on a labelmap instance (16^3 blocks, 3x2x2 block extent at origins incl. negative block coordinates; canvas painted from 3-12 boxes of palette supervoxels, labels up to 2^40): ingest via POST raw / POST blocks onto unwritten blocks, raw?mutate=true repaints, merge, cleave, split-supervoxel (5 shapes, with/without caller ids), renumber, commit/newversion/branch. After every mutation: stored voxels and mapping vs the reference model; then every read endpoint (raw mapped, blocks, sizes, size, supervoxels, supervoxel-sizes, index, sparsevol-size, sparsevol rles/srles/blocks, sparsevol-coarse, label, labels, listlabels, existing-labels, maxlabel) vs scan+mapping of the server's own stored voxels; all other versions' digests unchanged; final sweep of every version. Non-trivial: >=2 different proofreading/mutating op kinds applied and >=1 new version. Distinct = hash of the case value.",
        "assumptions": ["split volumes are proper non-empty subsets of the target supervoxel; cleaves never take every supervoxel; merges name distinct existing bodies; new supervoxel ids written after allocations come from the initial palette (registered with the label counter by the first ingest) — the documented domains",
                        "server-chosen ids are compared by freshness, not by value"],
    },
    "C03": {
        "pkg": "c03",
        "level": "exploration",
        "tools": ["verif-child"],
        "tests": [
            T("TestC03Restart", (6, 8), (40, 16), ),
        ],
        "required_classes": ["op/restart-clean", "op/restart-abrupt", "op/lmmerge", "op/lmcleave", "op/lmsplitsv", "op/njpost", "op/annpost"],
        "rule": "rapid-generated histories (<=~35 ops) against a real server process (verif-child = the DoServe initialisation on a Badger store + file log + JSON mutation log): keyvalue writes, commit/newversion/branch/merge, notes and logs, labelmap ingest/mutate/merge/cleave/split-supervoxel/renumber, annotation posts/deletes/moves with synced labelmap and labelsz, neuronjson posts (partial, replace, null) and deletes over mixed-digit body ids, roi posts, instance creation/deletion, with restart(clean = server.Shutdown) and restart(abrupt = SIGKILL while idle) pseudo-ops at generated positions (every history ends restart, 1-4 ops, restart). At each restart: deep settle, full observable snapshot (repos/info minus the mutation-id counters, DAG, notes, logs, commit flags, branch resolution, instance settings and syncs, every read endpoint of every instance at every version), snapshot again (to drop observables unstable without a restart), restart, snapshot, compare. Non-trivial: >=1 op whose effect lives in rebuilt state before a restart and >=2 restarts. Distinct = hash of the op list.",
        "assumptions": ["only MutationID/SavedMutationID of repo info may differ (documented to jump forward); /api/server statistics are not read", "abrupt exit = SIGKILL of the idle process with the OS surviving"],
    },
    "C04": {
        "pkg": "c04",
        "level": "fault_enumeration",
        "tools": ["verif-child"],
        "tests": [
            T("TestC04TornLog", (40, 2), (600, 4)),
            T("TestC04TornMutationLog", (1, 2, {"timeout": 900}), (4, 8, {"timeout": 3000})),
            T("TestC04Crash", (1, 6, {"env": {"VERIF_C04_MAXPOINTS": 8}, "timeout": 900}), (8, 8, {"env": {"VERIF_C04_MAXPOINTS": 0, "VERIF_C04_PAR": 3}, "timeout": 3400})),
            T("TestC04CrashMeta", (1, 8, {"env": {"VERIF_C04_MAXPOINTS": 0}, "timeout": 900}), (3, 8, {"env": {"VERIF_C04_MAXPOINTS": 0, "VERIF_C04_PAR": 1}, "timeout": 3400})),
        ],
        "required_classes": ["outcome/absent", "outcome/present", "point/badger.Put:before", "point/badger.Put:after", "append-after-cut", "mutation-log-cut", "target/newrepo", "target/newversion", "target/newinst", "target/commit"],
        "rule": "TestC04Crash: a rapid-generated workload (labelmap ingest + 1..6 operations over keyvalue / labelmap / annotation / neuronjson / roi / DAG) and one target operation out of 23 kinds (TestC04CrashMeta: the eight repository-level kinds (incl. repo deletion) round-robin, every write point); the write points (store put / delete / batch flush / log append, before and after) the target passes are recorded in an uninterrupted execution, then for EVERY such point (quick: an evenly spaced subset of 8 incl. first and last) a fresh server re-executes the workload, is killed (SIGKILL inside the process) at that point, restarted (every third trial: killed once more at the k-th write of the recovery start-up, then restarted), and checked: the start succeeds; repository metadata is well formed (DAG parent/child symmetry, unique version ids and data uuids, root, locked parents); every observable not touched by the target (whole-server snapshot: all read endpoints of all instances at all versions, DAG, notes, logs) reads as before the crash; a repo-level or single-key target is entirely absent or equals the uninterrupted execution on everything it touches; an absent one can be issued again with the same answer and result; 1..3 further operations are acknowledged and survive a clean restart. TestC04TornMutationLog: a keyvalue instance logs 1..4 puts to its JSON mutation log (10-byte header, then payload); the file is cut at every record boundary -11..+11 bytes and at generated lengths, a server is started on it, GET mutations must answer exactly the complete records, further puts are acknowledged and must be served after the next restart.  TestC04TornLog: a file log of 1..6 generated records is cut at EVERY byte length; ReadAll and StreamAll must return exactly the records wholly inside the prefix, and records appended after the cut must be read back after reopening. Non-trivial: at least one trial in which the server died inside the target operation (crash) / more than one cut (torn log). Distinct = hash of the case.",
        "assumptions": ["crash = SIGKILL of the server process at a write point (the OS and its page cache survive; power loss is out of scope)",
                        "an interrupted multi-key operation (ingest, merge, cleave, split, annotation post, batch put, instance deletion) may be left partially applied: the data of its instance (and synced instances) at its version and descendants is exempt from the reads-as-before oracle",
                        "observables whose answers differ between two uninterrupted executions of the same workload are left out of the comparison with the reference execution"],
    },
    "C12": {
        "pkg": "c12",
        "level": "exploration",
        "tools": ["verif-child"],
        "tests": [
            T("TestC12Restart", (10, 8), (150, 16)),
        ],
        "required_classes": ["restart/clean", "restart/abrupt", "restart/crash", "restart-near-mutation-id-stride", "concurrent-allocations", "ingest-of-larger-labels", "renumber-to-caller-chosen-label"],
        "rule": "rapid-generated histories against a real server process: segments of N allocation requests (N steered to the mutation-id persistence stride: 0,1,2,3,7,98..102,199..201; mixes of merge / cleave / POST nextlabel/k / newversion / new instance / new repo), optional ingest of a larger label before them, optional burst of 2-8 concurrent allocation requests, optional administrator set-nextlabel (then only uniqueness is asserted), each segment ending in restart(clean) / restart(abrupt SIGKILL) / crash armed at the k-th store write of the last allocation request / nothing; the history ends restart + allocations. Oracles: mutation ids from responses strictly increase in issue order and never repeat (concurrent ones: never repeat, later ones exceed them); allocated labels strictly increase, never repeat, and exceed every label stored in any version (re-read from the volumes after a crash); version, repo and instance ids read from the identifier maps never name two things over the whole history and stay below their counters. Non-trivial: allocations on both sides of a restart/crash, or concurrent allocations. Distinct = hash of the case.",
        "assumptions": ["crash = SIGKILL inside the process at a store write point (OS survives)", "after set-nextlabel only uniqueness of labels is asserted (documented administrator exception)"],
    },
}


# ---- entries proposed alongside the props packages (harness/props/<pkg>/config_entry.py define a dict named like the id)
# packages whose entries the maintainer has integrated (an entry file of a package still being built is ignored)
INTEGRATED = {"C02", "C11", "C20", "C06", "C09", "C10", "C13", "C14", "C16", "C17", "C19"}


def _load_entries():
    import glob, os, re
    here = os.path.dirname(os.path.abspath(__file__))
    for f in sorted(glob.glob(os.path.join(here, "harness", "props", "*", "config_entry.py"))):
        ns = {"T": T}
        exec(compile(open(f).read(), f, "exec"), ns)
        for k, v in list(ns.items()):
            if k.startswith("__") or not isinstance(v, dict):
                continue
            if re.fullmatch(r"C\d\d", k) and k not in CHECKS and k in INTEGRATED:
                CHECKS[k] = v
            elif v and all(isinstance(kk, str) and re.fullmatch(r"C\d\d", kk) and isinstance(vv, dict) for kk, vv in v.items()):
                for kk, vv in v.items():
                    if kk not in CHECKS and kk in INTEGRATED:
                        CHECKS[kk] = vv


_load_entries()
