# Per-property configuration of the check driver: which props package, which
# tests, how many generated cases per shard in each tier, required classes.
TAGS = "badger filelog verif"


def T(name, quick, thorough, **kw):
    """quick/thorough: (checks_per_shard, shards) or None"""
    def mk(v):
        if v is None:
            return None
        d = {"checks": v[0], "shards": v[1]}
        if len(v) > 2:
            d.update(v[2])
        return d
    d = {"name": name, "quick": mk(quick), "thorough": mk(thorough)}
    d.update(kw)
    return d


CHECKS = {
    "C15": {
        "pkg": "c15",
        "level": "exploration",
        "tests": [
            T("TestC15RoundTrip", (400, 4), (6000, 16)),
            T("TestC15Gob", (300, 1), (5000, 2)),
            T("TestC15Corruption", (150, 4), (3000, 16)),
            T("TestC15Arbitrary", (3000, 2), (150000, 8)),
        ],
        "fuzz": [{"name": "FuzzC15Deserialize", "time": "120s"}],
        "required_classes": ["rt/format=1", "rt/format=2", "rt/format=4", "rt/size=0", "rt/size=1", "corr/exhaustive=true", "arb/kind=jpeg-color", "arb/format=4"],
        "rule": "rapid-generated (payload kind/size/seed, format in {none,snappy,lz4,gzip -1,1..9} x {none,CRC32}, uncompress flag, precompressed flag); corruption cases = envelope + exhaustive or sampled bit flips / byte changes / truncations; arbitrary cases = header byte x body, valid gray/colour JPEG, LZ4 with lying length. Non-trivial: payload >= 2 bytes with a real compressor, or a corruption case on a non-empty payload, or arbitrary input >= 2 bytes. Distinct = distinct hash of the case value.",
        "assumptions": ["CRC32 detects every single-bit and single-byte change (mathematical property of the polynomial); for truncations a genuine CRC collision is recomputed and accepted",
                        "gzip envelopes carry no DVID checksum by design (documented in SerializeData); for them only 'error or identical payload' with decompression requested is asserted",
                        "JPEG is lossy and only in the no-crash domain"],
    },
    "C18": {
        "pkg": "c18",
        "level": "exploration",
        "tests": [
            T("TestC18Keys", (20000, 1), (1500000, 4)),
            T("TestC18Packed", (10000, 1), (800000, 2)),
            T("TestC18RLEs", (1500, 4), (40000, 16)),
            T("TestC18ROI", (400, 2), (8000, 8)),
        ],
        "fuzz": [{"name": "FuzzC18ReadRLEs", "time": "60s"}],
        "required_classes": ["keys/different-signs", "rle/adjacent-runs", "rle/run-crosses-block-edge", "rle/negative-coords", "roi/negative-spans"],
        "rule": "rapid-generated: pairs of int32 block coordinates (boundary-biased, related by small deltas / sign flips) for the key codecs and order; pairs of |c|<2^20 coordinates for the packed index; sets of non-overlapping runs (shuffled, adjacent, single-voxel, long, negative bases) with a drawn subset, second set, block size, optional bounds and query points for the RLE algebra; ROI span sets + query points + mask box + extents over HTTP. Non-trivial: key pair with different signs on some axis / packed coordinate with a negative component / run set with >=1 adjacency and >=1 run crossing a block edge / ROI with >=2 spans and >=1 query point. Distinct = hash of the case value.",
        "assumptions": ["runs are non-overlapping (the property's domain); coordinates stay within +-2^30 so that start+length cannot overflow int32",
                        "RLEs.Add is only checked as a set union (its voxelsAdded count is not part of the statement)",
                        "Split is only asserted for true subsets (documented precondition)"],
    },
    "C01": {
        "pkg": "c01",
        "level": "exploration",
        "tests": [
            T("TestC01Resolver", (80, 4), (1200, 16)),
            T("TestC01Store", (300, 4), (4000, 16)),
            T("TestC01HTTP", (100, 4), (2000, 16)),
        ],
        "required_classes": ["dag/template", "dag/free", "dag/merge>=3parents", "dag/merge>=3parents+shared-nonroot-ancestor", "dag/merge-parent-is-ancestor-of-another", "dag/nested-merge", "http/has-merge", "store/rewrite-at-same-version"],
        "rule": "rapid-generated version DAGs (free growth: child / 2-4-parent merges over <=10 nodes; lineage templates: trunk + k in 2..4 lineages forking from trunk or other lineages with 0-2 own nodes, merged, optionally a child / second-level merge on top; every order of the last merge's parents enumerated). Resolver layer: for each DAG every placement of {none,value,tombstone} over the nodes (3^n exhaustive for n<=7, 500 sampled above), entry list permuted, GetBestKeyVersion and VersionedKeyValue at every node vs the frontier model (counter resolver_dag_placement_query_evaluations). Store layer: real Put/Delete/batch on Badger at arbitrary nodes, Get/Exists at every node after every write. HTTP layer: op lists over put/del/commit/newversion/branch/merge on a versioned and an unversioned keyvalue instance in two repos, reads of the touched key at every node of both repos after every write plus a final sweep. Non-trivial: DAG with >=3 nodes (resolver); key written at >=2 nodes incl. a delete (store); >=2 DAG-growing ops and >=1 delete (HTTP). Distinct = hash of the case value.",
        "assumptions": ["merge parents are distinct committed nodes (what the merge endpoint is documented to take)",
                        "on a conflict (>=2 unsuperseded live values) both an error and 'absent' are accepted, a value is not"],
    },
    "C05": {
        "pkg": "c05",
        "level": "exploration",
        "tests": [
            T("TestC05History", (400, 4), (5000, 16)),
            T("TestC05BulkDeleteRange", (25, 4), (300, 16)),
        ],
        "required_classes": ["hist/delrange", "hist/merge", "hist/binary-values", "hist/query-lo>hi", "bulk/span-multiple-of-batch"],
        "rule": "rapid-generated histories (put/del over HTTP on open nodes, commit, newversion, branch, merge, storage-level DeleteRange) over a 10-key universe built from prefix-related keys, followed by range queries (node, [lo,hi]) with ends from the universe plus never-stored keys incl. lo>hi: storage GetRange/KeysInRange/SendKeysInRange/ProcessRange and HTTP keys, keyrange, keyrangevalues (protobuf|tar|json), GET keyvalues (protobuf|jsontar|json) all compared with HTTP point reads of every universe key in the interval (and those with the DAG model); after every DeleteRange a full point-read sweep of all (key,node) pairs. Bulk test: N keys at the root, DeleteRange at a child/grandchild over an interval whose size is steered to the store's batch size (1,2,3,17,998..1002,1999..2001,3000), KeysInRange at every node + edge point reads. Non-trivial: a query whose interval holds >=1 present and >=1 absent/tombstoned key on a DAG with a branch (history); span>=2 (bulk). Distinct = hash of the case value.",
        "assumptions": ["keys are alphanumeric (help text); values are JSON for the json variants (documented requirement) and arbitrary non-empty bytes otherwise",
                        "an interval that contains a key with an unresolved merge conflict at the queried version may be refused; DeleteRange over such an interval is not exercised"],
    },
}
