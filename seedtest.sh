#!/bin/bash
# usage: seedtest.sh <patch.diff> <ID> [tier]   — applies a seeded change to /repo, runs the check, reverts.
set -u
export GOFLAGS=-mod=mod GOPROXY=off GOSUMDB=off GOTOOLCHAIN=local
P=$1; ID=$2; TIER=${3:-quick}
cd /verif
if [ -n "$(git -C /repo status --porcelain)" ]; then echo "/repo not clean"; exit 3; fi
if ! git -C /repo apply --3way "$P" 2>/tmp/seedtest.err && ! git -C /repo apply "$P" 2>>/tmp/seedtest.err; then echo "PATCH DOES NOT APPLY: $(cat /tmp/seedtest.err | head -5)"; git -C /repo checkout -- . ; git -C /repo reset -q; exit 4; fi
git -C /repo reset -q
START=$(date +%s)
./check $ID --tier $TIER > /tmp/seedtest.out 2>&1; RC=$?
END=$(date +%s)
git -C /repo checkout -- .
git -C /repo status --porcelain | head -3
grep -E "VIOLATION|KNOWN-FINDING|INCONCLUSIVE|^OK|violation detail" /tmp/seedtest.out | cut -c1-400 | head -8
echo "seedtest $ID $(basename $(dirname $P)) rc=$RC wall=$((END-START))s"
# restore evidence produced on the unchanged tree? (evidence is rewritten by the next clean run)
