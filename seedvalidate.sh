#!/bin/bash
# usage: seedvalidate.sh <ID> <a|b>  — confirms a seeded change in a scratch worktree of /repo HEAD:
# demo passes without the patch, fails with it; patch builds; pinned baseline tests still pass with it.
export GOFLAGS=-mod=mod GOPROXY=off GOSUMDB=off GOTOOLCHAIN=local
ID=$1; V=$2; SRC=/tmp/seed-out/$ID/$V; WT=/tmp/wt-val-$ID$V
OUT=$SRC/validation.txt
exec > $OUT 2>&1
git -C /repo worktree remove --force $WT 2>/dev/null
git -C /repo worktree add --detach $WT HEAD >/dev/null 2>&1 || { echo "RESULT: worktree-failed"; exit 1; }
cd $WT
place_demo() {
  for f in $(cd $SRC/demo && find . -name '*_test.go' -o -name '*.go' | grep -v README); do
    rel=${f#./}
    if [[ "$rel" == */* ]]; then dest=$rel; else
      pkgname=$(grep -m1 -oE '^package [A-Za-z0-9_]+' $SRC/demo/$rel | awk '{print $2}'); pkgname=${pkgname%_test}
      dir=""
      for cand in $(grep -ohE '(datatype|datastore|server|storage|dvid|tests_integration)(/[A-Za-z0-9_]+)*' $SRC/demo/README.txt $SRC/meta.json | awk '!s[$0]++'); do
        if [ -d "$cand" ] && grep -qlE "^package ${pkgname}(_test)?\$" $cand/*.go 2>/dev/null; then dir=$cand; break; fi
      done
      [ -z "$dir" ] && dir=$(python3 -c "import json;print(json.load(open('$SRC/meta.json')).get('demo_dir',''))" 2>/dev/null)
      dest=$dir/$rel
    fi
    mkdir -p $(dirname $dest); cp $SRC/demo/$rel $dest; echo "placed $dest"; PKGS="$PKGS ./$(dirname $dest)/"
  done
}
PKGS=""; place_demo
PKGS=$(echo $PKGS | tr ' ' '\n' | sort -u | tr '\n' ' ')
NAMES=$(grep -hoE 'func (Test[A-Za-z0-9_]+)' $(cd $SRC/demo && find . -name '*_test.go' | sed "s#^\./#$SRC/demo/#") | awk '{print $2}' | grep -v '^TestMain$' | sort -u | paste -sd'|')
echo "demo packages: $PKGS tests: $NAMES"
go test -tags "badger filelog" -vet=off -count=1 -run "^($NAMES)\$" $PKGS > /tmp/sv-$ID$V-clean.txt 2>&1; RC_CLEAN=$?
tail -5 /tmp/sv-$ID$V-clean.txt
if ! git apply $SRC/patch.diff 2>/tmp/sv-$ID$V-apply.txt; then
  if ! git apply --3way $SRC/patch.diff 2>>/tmp/sv-$ID$V-apply.txt; then echo "RESULT: patch-does-not-apply"; cat /tmp/sv-$ID$V-apply.txt | head; cd /; git -C /repo worktree remove --force $WT; exit 1; fi
fi
go build ./... 2>&1 | grep -v "main is undeclared\|^#" | head -5
go test -tags "badger filelog" -vet=off -count=1 -run "^($NAMES)\$" $PKGS > /tmp/sv-$ID$V-patched.txt 2>&1; RC_PATCHED=$?
tail -8 /tmp/sv-$ID$V-patched.txt | cut -c1-300
# pinned baseline (no engine tag), compare with stable_pass; the demo files are removed first (they are not part of the change)
git clean -fdq
go test -vet=off -count=1 -json -timeout 25m ./... 2>/dev/null > /tmp/sv-$ID$V-base.json
BASE=$(python3 - <<PY
import json
want=set(json.load(open('/root/.vp/BASELINE.json'))['stable_pass'])
got=set()
for l in open('/tmp/sv-$ID$V-base.json'):
    try: r=json.loads(l)
    except: continue
    if r.get('Action')=='pass' and r.get('Test'): got.add(r['Package']+'::'+r['Test'])
missing=sorted(want-got)
print('baseline_pass=%d/%d missing=%s'%(len(want&got),len(want),missing[:5]))
PY
)
echo "$BASE"
echo "RESULT: demo_clean_rc=$RC_CLEAN demo_patched_rc=$RC_PATCHED $BASE"
cd /; git -C /repo worktree remove --force $WT; rm -f /tmp/sv-$ID$V-*.txt /tmp/sv-$ID$V-base.json
